import AaVerif.Generated.Chains
import AaVerif.Lines
/-!
# C17 — full-system-policy builds leave no unconfined fallback

`Generated.hotfix`, `Generated.fsp`, `Generated.abi3` are regenerated on every run from the
regex lists of the running Go code (`regHotfix`, `regFullSystemPolicy`, `regAbi4To3`).
The theorems below hold for **every** input text.
-/
namespace C17
open Str Generated Lines

/-- the exec modes that still permit an unconfined fallback, as they can appear after `hotfix` -/
def bad : List (List Char) := ["rPUx,".toList, "rUx,".toList, "rpux,".toList, "rux,".toList]

/-- literal part of the builder chain of a `--full` build, in registration order -/
def fullChain (abi3? : Bool) : List Step := hotfix ++ fsp ++ (if abi3? then abi3 else [])

/-- **C17 (text level).** Whatever the text, after `hotfix; fsp [; abi3]` no rule keeps a
read + unconfined-fallback mode. -/
theorem C17_no_fallback (a : Bool) (t : List Char) : ∀ q ∈ bad, ¬ q <:+: runSteps (fullChain a) t := by
  intro q hq
  apply killedB_sound
  cases a <;> revert q <;> decide +kernel

/-- Without the `fsp` task the fallback survives (the property is about `--full` builds only):
the theorem above is not vacuous. -/
theorem C17_fsp_needed : ∃ t q, q ∈ bad ∧ q <:+: runSteps (hotfix ++ abi3) t :=
  ⟨"  @{bin}/a rPUx,\n".toList, "rpux,".toList, by decide +kernel, by decide +kernel⟩

/-- block headers end in ` {`; exec rules never do -/
def endsBrace (l : List Char) : Bool := " {".toList.isSuffixOf l

/-- What a header-rewriting task (`complain`, `enforce`) may do to the lines of a text: a line
is either kept, or — when it ends in ` {` — replaced by another single line.  That the real
builders have this shape is checked on every text of the correspondence run. -/
def HeaderRewrite (ls ls' : List (List Char)) : Prop :=
  Rel2 (fun l l' => (l' = l ∨ endsBrace l = true) ∧ nl ∉ l') ls ls'

/-- **C17 (rule level), with a mode task between `fsp` and `abi3`.**  For every text and every
header rewrite applied after `hotfix; fsp`, each output line that comes from a non-header line
is exactly `hotfix; fsp; abi3` of the source line and holds no fallback mode. -/
theorem C17_rule_lines (a : Bool) (t : List Char) (ls' : List (List Char))
    (h : HeaderRewrite (splitNl (runSteps (hotfix ++ fsp) t)) ls') :
    Rel2 (fun l o => endsBrace (runSteps (hotfix ++ fsp) l) = false →
        o = runSteps (fullChain a) l ∧ ∀ q ∈ bad, ¬ q <:+: o)
      (splitNl t) (splitNl (runSteps (if a then abi3 else []) (joinNl ls'))) := by
  have hHF : stepsNoNl (hotfix ++ fsp) = true := by decide +kernel
  have hA : stepsNoNl (if a then abi3 else []) = true := by cases a <;> decide +kernel
  -- lines of the text after hotfix; fsp
  have h1 : splitNl (runSteps (hotfix ++ fsp) t) = (splitNl t).map (runSteps (hotfix ++ fsp)) := by
    rw [runSteps_lines hHF t]
    apply split_join
    · simpa using splitNl_ne_nil t
    · exact map_lines_no_nl (fun hl => runSteps_no_nl hHF hl) (split_lines_no_nl t)
  rw [h1] at h
  have hls' : ∀ l ∈ ls', nl ∉ l := Rel2.right_all (fun _ _ hr => hr.2) h
  have hne : ls' ≠ [] := Rel2.ne_nil h (by simpa using splitNl_ne_nil t)
  -- lines of the output
  have h2 : splitNl (runSteps (if a then abi3 else []) (joinNl ls'))
      = ls'.map (runSteps (if a then abi3 else [])) := by
    rw [runSteps_join hA ls' hls']
    apply split_join
    · simpa using hne
    · exact map_lines_no_nl (fun hl => runSteps_no_nl hA hl) hls'
  rw [h2, Rel2.map_right]
  have h3 := (Rel2.map_left (runSteps (hotfix ++ fsp))).mp h
  refine Rel2.mono ?_ h3
  intro l l' hr hnb
  rcases hr.1 with e | e
  · have : runSteps (if a then abi3 else []) l' = runSteps (fullChain a) l := by
      rw [e]; simp [fullChain, runSteps, List.foldl_append]
    rw [this]
    exact ⟨rfl, C17_no_fallback a l⟩
  · rw [e] at hnb; cases hnb

/-- the hypothesis of `C17_rule_lines` is satisfiable by a real header rewrite -/
example : HeaderRewrite (splitNl "profile a {\n  /b rpx,\n}".toList)
    (splitNl "profile a flags=(complain) {\n  /b rpx,\n}".toList) := by
  unfold HeaderRewrite; decide +kernel

/-- concrete instances (also replayed on the real builders by the check) -/
example : runSteps (fullChain true) "  @{bin}/a rPUx,\n  @{lib}/b rUx,\n".toList
    = "  @{bin}/a rpx,\n  @{lib}/b rpx,\n".toList := by decide +kernel

end C17
