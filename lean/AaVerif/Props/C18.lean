import AaVerif.Generated.Chains
import AaVerif.Lines
import AaVerif.Flags
import AaVerif.Filter
/-!
# C18 — build options are orthogonal: each changes only what it governs

For the text-rewriting tasks the statement "changes only the governed lines" is proved on the
model, for every text: a task acts on each line separately, and a line that holds none of the
task's patterns is left as it is.  The file-level part (ignore lists, manifests, configure,
overwrite, full-policy installs) and the directive part are decided on real builds: every pair of
configurations at distance one of the tier is diffed line by line and each differing line is
classified.
-/
namespace C18
open Str Lines Generated Flags

/-- **ABI switch** (`abi3` task): acts line by line, and a line without `abi/4?0`, `  userns,`,
`  mqueue` is unchanged. -/
theorem C18_abi_governed_lines (t : List Char) :
    runSteps abi3 t = joinNl ((splitNl t).map (runSteps abi3)) ∧
    ∀ l, untouchedBy abi3 l → runSteps abi3 l = l :=
  ⟨runSteps_lines (by decide) t, runSteps_id_of_untouched abi3⟩

/-- **Full-system-policy switch** (`fsp` task): acts line by line, and a line without
`r(PU|U|pu|u)x,` is unchanged. -/
theorem C18_full_governed_lines (t : List Char) :
    runSteps fsp t = joinNl ((splitNl t).map (runSteps fsp)) ∧
    ∀ l, untouchedBy fsp l → runSteps fsp l = l :=
  ⟨runSteps_lines (by decide) t, runSteps_id_of_untouched fsp⟩

/-- **Mode switch** (`complain` / `enforce`): every line that is not a block header is carried
through unchanged. -/
theorem C18_mode_governed_lines (t : List Char) :
    Rel2 (fun l l' => l' = l ∨ (endsBrace l = true ∧ l' = complainLine l)) (splitNl t) (mapHeaderLines complainLine (splitNl t)) ∧
    Rel2 (fun l l' => l' = l ∨ (endsBrace l = true ∧ l' = enforceLine l)) (splitNl t) (mapHeaderLines enforceLine (splitNl t)) :=
  ⟨mapHeaderLines_rel complainLine (splitNl t), mapHeaderLines_rel enforceLine (splitNl t)⟩

/-- the tasks common to every configuration (`hotfix`) cannot show in a distance-one difference;
it too acts line by line -/
theorem C18_hotfix_line_local (t : List Char) : runSteps hotfix t = joinNl ((splitNl t).map (runSteps hotfix)) :=
  runSteps_lines (by decide) t

/-- non-vacuity: an ordinary rule line is untouched by the ABI task; a `userns` rule is not -/
example : runSteps abi3 "  @{bin}/foo rix,".toList = "  @{bin}/foo rix,".toList := by decide +kernel
example : runSteps abi3 "  userns,".toList = "  # userns,".toList := by decide +kernel

/-! ### The directive part, on the specification of the only/exclude filter -/

/-- the filters of an item (none for an unguarded line or an unterminated paragraph) -/
def itemArgs : Filter.Item → List (List Char)
  | .inline _ _ args => args
  | .para _ _ args _ => args
  | _ => []

/-- **Distribution switch**: two targets with the same ABI and AppArmor version give the same text
for every item whose filters name neither distribution and neither package family — only
paragraphs and rules guarded by one of the two distributions or families can differ. -/
theorem C18_dist_governed_items (tg₁ tg₂ : Filter.Target) (ha : tg₁.abi = tg₂.abi) (hv : tg₁.version = tg₂.version)
    (it : Filter.Item)
    (h : ∀ a ∈ itemArgs it, a ≠ tg₁.dist ∧ a ≠ tg₁.family ∧ a ≠ tg₂.dist ∧ a ≠ tg₂.family) :
    Filter.specItem tg₁ it = Filter.specItem tg₂ it := by
  have key : ∀ args : List (List Char),
      (∀ a ∈ args, a ≠ tg₁.dist ∧ a ≠ tg₁.family ∧ a ≠ tg₂.dist ∧ a ≠ tg₂.family) →
      Filter.forUs tg₁ args = Filter.forUs tg₂ args := by
    intro args hh
    have n1 : args.contains tg₁.dist = false := by
      cases e : args.contains tg₁.dist with
      | false => rfl
      | true => exact absurd rfl (hh _ (by simpa using e)).1
    have n2 : args.contains tg₁.family = false := by
      cases e : args.contains tg₁.family with
      | false => rfl
      | true => exact absurd rfl (hh _ (by simpa using e)).2.1
    have n3 : args.contains tg₂.dist = false := by
      cases e : args.contains tg₂.dist with
      | false => rfl
      | true => exact absurd rfl (hh _ (by simpa using e)).2.2.1
    have n4 : args.contains tg₂.family = false := by
      cases e : args.contains tg₂.family with
      | false => rfl
      | true => exact absurd rfl (hh _ (by simpa using e)).2.2.2
    unfold Filter.forUs
    rw [n1, n2, n3, n4, ha, hv]
  cases it with
  | plain l => rfl
  | unterminated ls => rfl
  | inline code only args => simp only [Filter.specItem, Filter.keep, key args h]; rfl
  | para m only args body => simp only [Filter.specItem, Filter.keep, key args h]; rfl

/-- **ABI / version switch**: two targets with the same distribution and family give the same text
for every item whose filters name neither ABI and neither version. -/
theorem C18_abi_governed_items (tg₁ tg₂ : Filter.Target) (hd : tg₁.dist = tg₂.dist) (hf : tg₁.family = tg₂.family)
    (it : Filter.Item)
    (h : ∀ a ∈ itemArgs it, a ≠ tg₁.abi ∧ a ≠ tg₁.version ∧ a ≠ tg₂.abi ∧ a ≠ tg₂.version) :
    Filter.specItem tg₁ it = Filter.specItem tg₂ it := by
  have key : ∀ args : List (List Char),
      (∀ a ∈ args, a ≠ tg₁.abi ∧ a ≠ tg₁.version ∧ a ≠ tg₂.abi ∧ a ≠ tg₂.version) →
      Filter.forUs tg₁ args = Filter.forUs tg₂ args := by
    intro args hh
    have n1 : args.contains tg₁.abi = false := by
      cases e : args.contains tg₁.abi with
      | false => rfl
      | true => exact absurd rfl (hh _ (by simpa using e)).1
    have n2 : args.contains tg₁.version = false := by
      cases e : args.contains tg₁.version with
      | false => rfl
      | true => exact absurd rfl (hh _ (by simpa using e)).2.1
    have n3 : args.contains tg₂.abi = false := by
      cases e : args.contains tg₂.abi with
      | false => rfl
      | true => exact absurd rfl (hh _ (by simpa using e)).2.2.1
    have n4 : args.contains tg₂.version = false := by
      cases e : args.contains tg₂.version with
      | false => rfl
      | true => exact absurd rfl (hh _ (by simpa using e)).2.2.2
    unfold Filter.forUs
    rw [n1, n2, n3, n4, hd, hf]
  cases it with
  | plain l => rfl
  | unterminated ls => rfl
  | inline code only args => simp only [Filter.specItem, Filter.keep, key args h]; rfl
  | para m only args body => simp only [Filter.specItem, Filter.keep, key args h]; rfl

/-- a guarded paragraph that names one of the two distributions does differ (the theorem is sharp) -/
example : Filter.specItem ⟨"arch".toList, "pacman".toList, "abi4".toList, "apparmor4.1".toList⟩
      (.para "  #aa:only arch".toList true ["arch".toList] ["  /a r,".toList])
    ≠ Filter.specItem ⟨"debian".toList, "apt".toList, "abi4".toList, "apparmor4.1".toList⟩
      (.para "  #aa:only arch".toList true ["arch".toList] ["  /a r,".toList]) := by decide +kernel

end C18
