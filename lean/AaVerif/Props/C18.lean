import AaVerif.Generated.Chains
import AaVerif.Lines
import AaVerif.Flags
/-!
# C18 — build options are orthogonal: each changes only what it governs

For the text-rewriting tasks the statement "changes only the governed lines" is proved on the
model, for every text: a task acts on each line separately, and a line that holds none of the
task's patterns is left as it is.  The file-level part (ignore lists, manifests, configure,
overwrite, full-policy installs) and the directive part are decided on real builds: every pair of
configurations at distance one of the tier is diffed line by line and each differing line is
classified.
-/
namespace C18
open Str Lines Generated Flags

/-- **ABI switch** (`abi3` task): acts line by line, and a line without `abi/4?0`, `  userns,`,
`  mqueue` is unchanged. -/
theorem C18_abi_governed_lines (t : List Char) :
    runSteps abi3 t = joinNl ((splitNl t).map (runSteps abi3)) ∧
    ∀ l, untouchedBy abi3 l → runSteps abi3 l = l :=
  ⟨runSteps_lines (by decide) t, runSteps_id_of_untouched abi3⟩

/-- **Full-system-policy switch** (`fsp` task): acts line by line, and a line without
`r(PU|U|pu|u)x,` is unchanged. -/
theorem C18_full_governed_lines (t : List Char) :
    runSteps fsp t = joinNl ((splitNl t).map (runSteps fsp)) ∧
    ∀ l, untouchedBy fsp l → runSteps fsp l = l :=
  ⟨runSteps_lines (by decide) t, runSteps_id_of_untouched fsp⟩

/-- **Mode switch** (`complain` / `enforce`): every line that is not a block header is carried
through unchanged. -/
theorem C18_mode_governed_lines (t : List Char) :
    Rel2 (fun l l' => l' = l ∨ (endsBrace l = true ∧ l' = complainLine l)) (splitNl t) (mapHeaderLines complainLine (splitNl t)) ∧
    Rel2 (fun l l' => l' = l ∨ (endsBrace l = true ∧ l' = enforceLine l)) (splitNl t) (mapHeaderLines enforceLine (splitNl t)) :=
  ⟨mapHeaderLines_rel complainLine (splitNl t), mapHeaderLines_rel enforceLine (splitNl t)⟩

/-- the tasks common to every configuration (`hotfix`) cannot show in a distance-one difference;
it too acts line by line -/
theorem C18_hotfix_line_local (t : List Char) : runSteps hotfix t = joinNl ((splitNl t).map (runSteps hotfix)) :=
  runSteps_lines (by decide) t

/-- non-vacuity: an ordinary rule line is untouched by the ABI task; a `userns` rule is not -/
example : runSteps abi3 "  @{bin}/foo rix,".toList = "  @{bin}/foo rix,".toList := by decide +kernel
example : runSteps abi3 "  userns,".toList = "  # userns,".toList := by decide +kernel

end C18
