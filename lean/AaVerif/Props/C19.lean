import AaVerif.Layout
/-!
# C19 — every shipped profile honours the layout contract

`Layout.ok` / `Layout.absOk` are evaluated by the compiled driver on every profile file and
every abstraction of the working tree on every run (the instances).  The theorems say what the
contract buys the build tasks, for every file that satisfies it.
-/
namespace C19
open Layout Lines

/-- the flat output directory loses nothing when base names are unique: two source paths with
the same base name are the same path -/
theorem C19_flat_lossless {α β : Type} (base : α → β) (paths : List α) (h : (paths.map base).Nodup)
    (hp : paths.Nodup) : ∀ p ∈ paths, ∀ q ∈ paths, base p = base q → p = q := by
  induction paths with
  | nil => intro p hp'; cases hp'
  | cons a as ih =>
    intro p hp' q hq hb
    simp only [List.map_cons, List.nodup_cons, List.mem_map, not_exists, not_and] at h
    simp only [List.nodup_cons] at hp
    simp only [List.mem_cons] at hp' hq
    rcases hp' with rfl | hp' <;> rcases hq with rfl | hq
    · rfl
    · exact absurd hb.symm (h.1 q hq)
    · exact absurd hb (h.1 p hp')
    · exact ih h.2 hp.2 p hp' q hq hb

/-- … and when they are not, one file silently replaces the other (the hypothesis is needed) -/
theorem C19_collision_loses : ∃ (paths : List (String × String)), paths.Nodup ∧
    ¬ (paths.map Prod.snd).Nodup := ⟨[("groups/a", "x"), ("groups/b", "x")], by decide, by decide⟩

/-- a file that satisfies the contract has a column-0 header for its own name -/
theorem C19_header_found (name : List Char) (ls : List (List Char)) (h : ok name ls = true) :
    (headerIdx name ls).isSome = true := by
  unfold ok at h
  simp only [Bool.and_eq_true] at h
  exact h.1.1.1.2

/-- … declares the 4.0 ABI (what `abi3` rewrites) and carries its local include (where `stack`
inserts) -/
theorem C19_abi_and_local (name : List Char) (ls : List (List Char)) (h : ok name ls = true) :
    hasAbi ls = true ∧ hasIndentedLine ls (localInclude name) = true := by
  unfold ok at h
  simp only [Bool.and_eq_true] at h
  exact ⟨h.1.1.1.1, h.1.2⟩

/-- … and, when it has an attachment, attaches through `@{exec_path}` defined in its own preamble
(what `userspace` and `exec` resolve) -/
theorem C19_attachment (name : List Char) (ls : List (List Char)) (h : ok name ls = true) :
    attachOk name ls = true := by
  unfold ok at h
  simp only [Bool.and_eq_true] at h
  exact h.1.1.2

/-- … and every sub-profile holds the local include named after it *inside its own block* (between its header and the
`}` at the header's indentation): for every way of cutting the file at a sub-profile header -/
theorem C19_sub_include_in_block (name : List Char) (pre : List (List Char)) (l : List Char) (rest : List (List Char))
    (s : List Char) (h : ok name (pre ++ l :: rest) = true)
    (hl : indented l = true) (hp : "profile ".toList.isPrefixOf (dropSpaces l) = true) (hs : (words l)[1]? = some s) :
    ∃ x ∈ blockBody (indentOf l) rest, dropSpaces x = localInclude (name ++ '_' :: s) := by
  unfold ok subIncludesOk at h
  simp only [Bool.and_eq_true] at h
  have hin := h.2.2
  clear h
  induction pre with
  | nil =>
    simp only [List.nil_append, subIncludesIn, hl, hp, Bool.and_self, if_true, hs, Bool.and_eq_true, List.any_eq_true,
      beq_iff_eq] at hin
    exact hin.1
  | cons a as ih =>
    simp only [List.cons_append, subIncludesIn, Bool.and_eq_true] at hin
    exact ih hin.2

/-- non-vacuity: a conforming file, and one that lacks the sub-profile include -/
def sample : List (List Char) := splitNl
  "abi <abi/4.0>,\n\ninclude <tunables/global>\n\n@{exec_path} = @{bin}/foo\nprofile foo @{exec_path} flags=(complain) {\n  include <abstractions/base>\n\n  profile bar {\n    include if exists <local/foo_bar>\n  }\n\n  include if exists <local/foo>\n}\n".toList

example : ok "foo".toList sample = true := by decide +kernel
example : ok "foo".toList (sample.filter (fun l => l != "    include if exists <local/foo_bar>".toList)) = false := by
  decide +kernel
example : ok "fo".toList sample = false := by decide +kernel

/-- two sub-profiles whose local includes are swapped: both lines are in the file, each in the other's block -/
def swapped : List (List Char) := splitNl
  "abi <abi/4.0>,\n\n@{exec_path} = @{bin}/foo\nprofile foo @{exec_path} {\n  profile a {\n    include if exists <local/foo_b>\n  }\n\n  profile b {\n    include if exists <local/foo_a>\n  }\n\n  include if exists <local/foo>\n}\n".toList

example : ok "foo".toList swapped = false ∧ report "foo".toList swapped = ["sub-profile-local-include"] := by
  constructor <;> decide +kernel

end C19
