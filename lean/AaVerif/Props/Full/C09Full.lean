import AaVerif.Props.C09
/-!
# C09, complete tables (thorough tier): the full products behind the row-and-column theorems of `Props/C09`
These take minutes of kernel evaluation and several GB; they are built by `./check C09 --tier thorough`, not by setup.
-/
namespace C09Full
open C09 Aa

theorem C09_capability_roundtrip_full :
    ∀ n ∈ reqValues T "capability" "name", ∀ q ∈ quals, ∀ c ∈ [[], S " see #12, (x)"],
      roundtrip (mk "capability" q c [.l [n]]) = true := by decide +kernel

theorem C09_network_roundtrip_full :
    ∀ d ∈ reqValues T "network" "domains", ∀ t ∈ reqValues T "network" "type",
      roundtrip (mk "network" (false, []) [] [.s [], .s [], .s [], .s d, .s t, .s []]) = true := by decide +kernel

theorem C09_signal_roundtrip_full :
    ∀ a ∈ reqValues T "signal" "access", ∀ s ∈ reqValues T "signal" "set",
      roundtrip (mk "signal" (false, []) [] [.l [a], .l [s], .s (S "foo//bar")]) = true := by decide +kernel

end C09Full
