import AaVerif.Props.C12
/-!
# C12, complete tables (thorough tier): the full products behind the row-and-column theorems of `Props/C12`
-/
namespace C12Full
open C12 Aa Ref

theorem C12_capability_read_full :
    ∀ n ∈ reqValues T "capability" "name", ∀ q ∈ quals, ∀ c ∈ [[], S " see #12, (x)"],
      readsBack (mk "capability" q c [.l [n]]) = true := by decide +kernel

theorem C12_network_read_full :
    ∀ d ∈ reqValues T "network" "domains", ∀ t ∈ reqValues T "network" "type",
      readsBack (mk "network" (true, S "deny") (S " c") [.s [], .s [], .s [], .s d, .s t, .s []]) = true := by decide +kernel

theorem C12_signal_read_full :
    ∀ a ∈ reqValues T "signal" "access", ∀ s ∈ reqValues T "signal" "set",
      readsBack (mk "signal" (false, []) [] [.l [a], .l [s], .s (S "foo//bar")]) = true ∧
      readsBack (mk "signal" (true, S "deny") (S " c") [.l [a], .l [s], .s []]) = true := by decide +kernel

end C12Full
