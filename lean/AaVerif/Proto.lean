/-!
# Proto — the line protocol shared with the Go harness and the python orchestrator

Fields are separated by TAB; inside a field records use `|`, lists `;`.  Atoms are
percent-escaped (bytes outside 0x21–0x7e and `%`, `;`, `|`).  Text is handled as a list of
*bytes stored in `Char`s* (each `Char` < 256): the Go code is byte-oriented and so is the model.
-/
namespace Proto

def hexDigit (n : Nat) : Char :=
  if n < 10 then Char.ofNat (48 + n) else Char.ofNat (55 + n)

def unhex (c : Char) : Option Nat :=
  if '0' ≤ c ∧ c ≤ '9' then some (c.toNat - 48)
  else if 'A' ≤ c ∧ c ≤ 'F' then some (c.toNat - 55)
  else if 'a' ≤ c ∧ c ≤ 'f' then some (c.toNat - 87)
  else none

def escChars : List Char → List Char
  | [] => []
  | c :: cs =>
    let n := c.toNat
    if n < 0x21 || n > 0x7e || c == '%' || c == ';' || c == '|' then
      '%' :: hexDigit (n / 16 % 16) :: hexDigit (n % 16) :: escChars cs
    else c :: escChars cs

def unescChars : List Char → List Char
  | '%' :: a :: b :: cs =>
    match unhex a, unhex b with
    | some h, some l => Char.ofNat (h * 16 + l) :: unescChars cs
    | _, _ => '%' :: unescChars (a :: b :: cs)
  | c :: cs => c :: unescChars cs
  | [] => []

/-- split on a separator character -/
def splitOnChar (sep : Char) (s : List Char) : List (List Char) :=
  let rec go (cur : List Char) (acc : List (List Char)) : List Char → List (List Char)
    | [] => (cur.reverse :: acc).reverse
    | c :: cs => if c == sep then go [] (cur.reverse :: acc) cs else go (c :: cur) acc cs
  go [] [] s

def esc (s : List Char) : String := String.ofList (escChars s)
def unesc (s : String) : List Char := unescChars s.toList

def escList (l : List (List Char)) : String :=
  match l with
  | [[]] => "%"
  | _ => String.intercalate ";" (l.map fun x => if x.isEmpty then "%" else esc x)

def unescList (s : String) : List (List Char) :=
  if s.isEmpty then [] else
  (splitOnChar ';' s.toList).map fun p => if p == ['%'] then [] else unescChars p

def fields (line : String) : List String := (splitOnChar '\t' line.toList).map String.ofList

def b2s (b : Bool) : String := if b then "1" else "0"

/-- read stdin line by line, answer each line with `h` -/
partial def serve (h : List String → String) : IO Unit := do
  let stdin ← IO.getStdin
  let stdout ← IO.getStdout
  let rec loop : IO Unit := do
    let line ← stdin.getLine
    if line.isEmpty then return ()
    let line := if line.back == '\n' then String.ofList line.toList.dropLast else line
    stdout.putStrLn (h (fields line))
    loop
  loop
  stdout.flush

end Proto
