import AaVerif.Aa.Render
import AaVerif.Aa.Merge
import AaVerif.Proto
/-!
# Ref.Grammar — a reader of the AppArmor 3 rule syntax, written from apparmor.d(5)

Independent of the library's own parser (`Aa.Parse`): it has its own tokenizer and its own
per-kind grammar, rejects what the reference parser rejects for a *syntactic* reason (an unquoted
blank inside a path, two exec modes in one permission string, a missing `->` target, an unknown
keyword value) and returns the fields a rule states.  It is compared with `apparmor_parser` on
every run (accept / reject on generated and damaged texts).  Kinds read: capability, network,
signal, ptrace, file, link, change_profile, rlimit.
-/
namespace Ref
open Aa

/-- split at blanks outside double quotes and parentheses; `none` for an unclosed quote / paren -/
def wordsAux : Nat → Bool → Text → List Text → Text → Option (List Text)
  | 0, false, cur, acc, [] => some ((if cur.isEmpty then acc else cur.reverse :: acc).reverse)
  | _, _, _, _, [] => none
  | d, q, cur, acc, c :: cs =>
    if c == '"' then wordsAux d (!q) (c :: cur) acc cs
    else if q then wordsAux d q (c :: cur) acc cs
    else if c == '(' then wordsAux (d + 1) q (c :: cur) acc cs
    else if c == ')' then (if d == 0 then none else wordsAux (d - 1) q (c :: cur) acc cs)
    else if (c == ' ' || c == '\t' || c == '\n') && d == 0 then
      wordsAux d q [] (if cur.isEmpty then acc else cur.reverse :: acc) cs
    else wordsAux d q (c :: cur) acc cs

def words (t : Text) : Option (List Text) := wordsAux 0 false [] [] t

/-- the members of `w`, `(a b)` or `(a, b)` -/
def listOf (w : Text) : List Text :=
  match w with
  | '(' :: rest =>
    let inner := rest.dropLast
    ((Proto.splitOnChar ' ' (inner.map (fun c => if c == ',' then ' ' else c))).filter (fun x => !x.isEmpty))
  | _ => [w]

def stripPrefix (p : String) (w : Text) : Option Text :=
  if (S p).isPrefixOf w then some (w.drop p.length) else none

/-- every `@` starts a well-formed variable reference `@{name}` (fuel = length, structural) -/
def varsOkF : Nat → Text → Bool
  | _, [] => true
  | 0, _ => false
  | f + 1, '@' :: '{' :: rest =>
    let name := rest.takeWhile (fun c => c.isAlphanum || c == '_')
    !name.isEmpty && (rest.drop name.length).head? == some '}' && varsOkF f (rest.drop name.length)
  | _ + 1, '@' :: _ => false
  | f + 1, _ :: cs => varsOkF f cs

def varsOk (t : Text) : Bool := varsOkF (t.length + 1) t

/-- two commas in a row: the lexer ends an unquoted path at the first one (an empty alternative is only
accepted first or last in its braces: `{,a}`, `{a,}`) -/
def doubleComma : Text → Bool
  | ',' :: ',' :: _ => true
  | _ :: cs => doubleComma cs
  | [] => false

/-- a path / name token: quoted, or free of blanks (guaranteed by `words`) and not empty -/
def isPathTok (w : Text) : Bool :=
  match w with
  | '"' :: rest => rest.getLast? == some '"' && rest.length ≥ 2 && varsOk rest &&
      (rest.head? == some '/' || rest.head? == some '@')      -- a quoted path still begins with `/` or `@`
  | '/' :: _ => !w.contains '"' && varsOk w && !doubleComma w
  | '@' :: _ => !w.contains '"' && varsOk w && !doubleComma w
  | _ => false

def infixB (p : Text) : Text → Bool
  | [] => p.isEmpty
  | c :: cs => p.isPrefixOf (c :: cs) || infixB p cs

/-- permission string: letters of `mrwlk` (plus the append `a`), and at most one exec mode -/
def readMode (T : Tables) (m : Text) : Option (List Text) :=
  let acc := reqValues T "file" "access"
  let plain := (m.filter (fun c => acc.contains [c])).map (fun c => [c])
  let rest := m.filter (fun c => !acc.contains [c])
  if m.isEmpty then none
  else if rest.isEmpty then some (mergeValues T "file" "access" plain [])
  else if (reqValues T "file" "transition").contains rest && infixB rest m then
    -- the letters of the exec mode stand together (`rPx`, `Pxr`; not `Prx`)
    some (mergeValues T "file" "access" (plain ++ [rest]) [])
  else none

structure Q where
  audit : Bool := false
  deny : Bool := false
  owner : Bool := false

def mkR (kind : String) (q : Q) (flds : List Fld) : Rule :=
  { kind := kind, audit := q.audit, accessType := if q.deny then S "deny" else [], flds := flds }

def sortedBy (T : Tables) (kind key : String) (l : List Text) : List Text := mergeValues T kind key l []

/-- conditionals `key=value` among the remaining words, each key at most once -/
def cond (key : String) (ws : List Text) : Option (Option Text) :=
  match ws.filterMap (stripPrefix (key ++ "=")) with
  | [] => some none
  | [v] => some (some v)
  | _ => none

def isCond (w : Text) : Bool := w.contains '=' && !(isPathTok w)

/-- the body of a rule (qualifiers and final comma removed) -/
def readBody (T : Tables) (q : Q) (ws : List Text) : Option Rule :=
  match ws with
  | [] => none
  | kw :: rest =>
    if kw == S "capability" then
      if q.owner then none
      else if rest.all (fun n => (reqValues T "capability" "name").contains n) then
        some (mkR "capability" q [.l (sortedBy T "capability" "name" rest)])
      else none
    else if kw == S "network" then
      if q.owner then none else
      match rest with
      | [] => some (mkR "network" q [.s [], .s [], .s [], .s [], .s [], .s []])
      | [d] => if (reqValues T "network" "domains").contains d then some (mkR "network" q [.s [], .s [], .s [], .s d, .s [], .s []]) else none
      | [d, t] =>
        if !(reqValues T "network" "domains").contains d then none
        else if (reqValues T "network" "type").contains t then some (mkR "network" q [.s [], .s [], .s [], .s d, .s t, .s []])
        else if (reqValues T "network" "protocol").contains t then some (mkR "network" q [.s [], .s [], .s [], .s d, .s [], .s t])
        else none
      | _ => none
    else if kw == S "signal" || kw == S "ptrace" then
      if q.owner then none else
      let kind := String.ofList kw
      let (accW, conds) := match rest with
        | w :: r => if isCond w then ([], rest) else (listOf w, r)
        | [] => ([], [])
      if !conds.all isCond then none
      else if !accW.all (fun a => (reqValues T kind "access").contains a) then none
      else
        match cond "peer" conds, cond "set" conds with
        | some peer, some set =>
          let known := conds.all (fun w => (S "peer=").isPrefixOf w || (kind == "signal" && (S "set=").isPrefixOf w))
          if !known then none
          else if kind == "signal" then
            let sl := (set.map listOf).getD []
            if !sl.all (fun a => (reqValues T "signal" "set").contains a) then none
            else some (mkR "signal" q [.l (sortedBy T "signal" "access" accW), .l (sortedBy T "signal" "set" sl), .s (peer.getD [])])
          else if set.isSome then none
          else some (mkR "ptrace" q [.l (sortedBy T "ptrace" "access" accW), .s (peer.getD [])])
        | _, _ => none
    else if kw == S "set" then
      match rest with
      | [r, k, op, v] =>
        let digits := (if v.head? == some '-' then v.drop 1 else v).takeWhile Char.isDigit
        let unit := (if v.head? == some '-' then v.drop 1 else v).drop digits.length
        let okValue := v == S "infinity" || (!digits.isEmpty && unit.all Char.isAlpha)
        if r == S "rlimit" && op == S "<=" && okValue && (reqValues T "rlimit" "keys").contains k && !q.audit && !q.deny && !q.owner
        then some (mkR "rlimit" q [.s k, .s op, .s v]) else none
      | _ => none
    else if kw == S "change_profile" then
      if q.owner then none else
      let (mode, r) := match rest with
        | w :: r => if (reqValues T "change_profile" "mode").contains w then (w, r) else ([], rest)
        | [] => ([], [])
      match r with
      | [] => if mode.isEmpty then some (mkR "change_profile" q [.s [], .s [], .s []]) else none
      | [e] => if isPathTok e then some (mkR "change_profile" q [.s mode, .s e, .s []]) else none
      | [a, t] => if a == S "->" && mode.isEmpty then some (mkR "change_profile" q [.s [], .s [], .s t]) else none
      | [e, a, t] => if a == S "->" && isPathTok e then some (mkR "change_profile" q [.s mode, .s e, .s t]) else none
      | _ => none
    else if kw == S "link" then
      let (subset, r) := match rest with
        | w :: r => if w == S "subset" then (true, r) else (false, rest)
        | [] => (false, [])
      match r with
      | [a, ar, b] => if ar == S "->" && isPathTok a && isPathTok b then some (mkR "link" q [.b q.owner, .b subset, .s a, .s b]) else none
      | _ => none
    else if isPathTok kw then
      match rest with
      | [m] => (readMode T m).map (fun a => mkR "file" q [.b q.owner, .s kw, .l a, .s []])
      | [m, ar, t] =>
        if ar == S "->" then (readMode T m).map (fun a => mkR "file" q [.b q.owner, .s kw, .l a, .s t]) else none
      | _ => none
    else none

def readQual : Nat → Q → List Text → Option (Q × List Text)
  | 0, _, _ => none
  | f + 1, q, ws =>
    match ws with
    | w :: r =>
      if w == S "audit" && !q.audit && !q.deny && !q.owner then readQual f { q with audit := true } r
      else if w == S "deny" && !q.deny && !q.owner then readQual f { q with deny := true } r
      else if w == S "allow" && !q.deny && !q.owner then readQual f q r
      else if w == S "owner" && !q.owner then readQual f { q with owner := true } r
      else some (q, ws)
    | [] => some (q, [])

/-- strip a trailing comment: ` #...` after the final comma, outside quotes -/
def stripComment (t : Text) : Text :=
  let rec go (q : Bool) (acc : Text) : Text → Text
    | [] => acc.reverse
    | c :: cs =>
      if c == '"' then go (!q) (c :: acc) cs
      else if c == '#' && !q && acc.head? == some ' ' && ((acc.drop 1).dropWhile (· == ' ')).head? == some ',' then acc.reverse
      else go q (c :: acc) cs
  go false [] t

def trimR (t : Text) : Text := (t.reverse.dropWhile (fun c => c == ' ' || c == '\n' || c == '\t')).reverse

/-- one rule line: `none` when the reference syntax does not accept the text -/
def read (T : Tables) (t : Text) : Option Rule :=
  let t := trimR (stripComment t)
  match t.getLast? with
  | some ',' =>
    match words t.dropLast with
    | some ws =>
      -- a word that ends in a comma: the lexer would have ended the rule there (`a,, # c`, `/path, mode,`)
      if ws.any (fun w => w.getLast? == some ',') then none else
      match readQual 5 {} ws with
      | some (q, body) => readBody T q body
      | none => none
    | none => none
  | _ => none

/-- what a rule states, for comparison with `read`: comment and bookkeeping dropped, `allow` is
the default -/
def fieldsOf (r : Rule) : Rule :=
  { r with comment := [], noNewPrivs := false, fileInherit := false, optional := false,
           accessType := if r.accessType == S "deny" then S "deny" else [] }

end Ref
