import AaVerif.Ref.GrammarRlimit
import AaVerif.Aa.ParseChangeProfile
/-!
# Ref.GrammarChangeProfile — the reference reader on a printed `change_profile` rule

Every qualifier, no mode or any mode of the table, every exec word the reference syntax takes for a path, every
keyword-like target.
-/
namespace Ref
open Aa Aa.Parse

theorem readBody_cp (T : Tables) (q : Q) (m e t : Text) (hq : q.owner = false)
    (hm : m = [] ∨ (m ≠ [] ∧ (reqValues T "change_profile" "mode").contains m = true))
    (hne : (reqValues T "change_profile" "mode").contains e = false) (hp : isPathTok e = true) :
    readBody T q (S "change_profile" :: cpBody m e t) = some (mkR "change_profile" q [.s m, .s e, .s t]) := by
  unfold readBody
  simp only []
  repeat (first | rw [if_pos (by decide)] | rw [if_neg (by decide)])
  rw [hq]
  have hne' : e ∉ reqValues T "change_profile" "mode" := by simpa using hne
  rcases hm with rfl | ⟨hme', hin⟩
  · simp [cpBody, modeW, hne', hp, S]
  · have hme : m.isEmpty = false := by cases m <;> simp_all
    have hin' : m ∈ reqValues T "change_profile" "mode" := by simpa using hin
    simp [cpBody, modeW, hme, hin', hp, S]

theorem read_cp (T : Tables) (audit deny : Bool) (m e t : Text)
    (hm : m = [] ∨ (CapW m ∧ (reqValues T "change_profile" "mode").contains m = true))
    (he : CapW e) (hne : (reqValues T "change_profile" "mode").contains e = false) (hp : isPathTok e = true) (ht : CapW t) :
    read T (renderRule (cpRule audit deny m e t) (padOf [])) =
      some (mkR "change_profile" { audit := audit, deny := deny, owner := false } [.s m, .s e, .s t]) := by
  rw [render_cp audit deny m e t he.1 ht.1]
  have hws : ∀ w ∈ qualWords audit deny ++ S "change_profile" :: cpBody m e t, SimpleW w ∧ '#' ∉ w ∧ w.getLast? ≠ some ',' := by
    intro w hw
    simp only [List.mem_append, List.mem_cons, cpBody, modeW, List.not_mem_nil, or_false] at hw
    rcases hw with hw | rfl | hw | rfl | rfl | rfl
    · cases audit <;> cases deny <;> simp [qualWords] at hw
      all_goals (first | (rcases hw with rfl | rfl) | subst hw) <;> exact ⟨⟨by decide, by decide⟩, by decide, by decide⟩
    · exact ⟨⟨by decide, by decide⟩, by decide, by decide⟩
    · rcases hm with rfl | ⟨hcm, _⟩
      · simp at hw
      · split at hw
        · simp at hw
        · have : w = m := by simpa using hw
          rw [this]; exact capW_simpleW hcm
    · exact capW_simpleW he
    · exact ⟨⟨by decide, by decide⟩, by decide, by decide⟩
    · exact capW_simpleW ht
  have hnc : (qualWords audit deny ++ S "change_profile" :: cpBody m e t).any (fun w => w.getLast? == some ',') = false := by
    rw [List.any_eq_false]
    intro w hw
    simpa using (hws w hw).2.2
  have hnh : '#' ∉ joinB (qualWords audit deny ++ S "change_profile" :: cpBody m e t) ++ [','] := by
    generalize qualWords audit deny ++ S "change_profile" :: cpBody m e t = ws at hws
    intro hmem
    rw [List.mem_append] at hmem
    rcases hmem with hmem | hmem
    · induction ws with
      | nil => simp [joinB] at hmem
      | cons a l ih =>
        cases l with
        | nil => exact (hws a (by simp)).2.1 (by simpa [joinB] using hmem)
        | cons b l' =>
          simp only [joinB, List.mem_append, List.mem_cons] at hmem
          rcases hmem with h | h | h
          · exact (hws a (by simp)).2.1 h
          · cases h
          · exact ih (fun w hw => hws w (by simp [hw])) h
    · simp at hmem
  unfold read
  simp only [stripComment_nohash _ hnh, trimR_comma, List.getLast?_append, List.getLast?_singleton, Option.some_or,
    List.dropLast_concat]
  rw [words_joinB' _ (by simp) (fun w hw => (hws w hw).1)]
  simp only [hnc, Bool.false_eq_true, if_false]
  rw [readQual_qualWords audit deny (S "change_profile") _ (by decide) (by decide) (by decide) (by decide)]
  simp only
  exact readBody_cp T _ m e t rfl (hm.elim Or.inl (fun h => Or.inr ⟨h.1.1, h.2⟩)) hne hp

end Ref
