import AaVerif.Ref.Grammar
/-!
# Ref.GrammarLemmas — the reference reader on printed capability rules, for every list of names

`words` splits a line made of *simple* words (no quote, parenthesis or blank) joined by single blanks
into exactly those words; with it, `Ref.read` is computed symbolically on the text the printer
model produces for a capability rule with any qualifier and any list of names.
-/
namespace Ref
open Aa

def simpleCh (c : Char) : Bool := !(c == '"' || c == '(' || c == ')' || c == ' ' || c == '\t' || c == '\n')

def SimpleW (w : Text) : Prop := w ≠ [] ∧ w.all simpleCh = true

instance (w : Text) : Decidable (SimpleW w) := by unfold SimpleW; infer_instance

/-- running over a simple word only grows the current word -/
theorem wordsAux_word (w : Text) (hw : w.all simpleCh = true) :
    ∀ (cur : Text) (acc : List Text) (rest : Text),
      wordsAux 0 false cur acc (w ++ rest) = wordsAux 0 false (w.reverse ++ cur) acc rest := by
  induction w with
  | nil => intro cur acc rest; rfl
  | cons c cs ih =>
    intro cur acc rest
    simp only [List.all_cons, Bool.and_eq_true] at hw
    have hc := hw.1
    simp only [simpleCh, Bool.not_eq_true', Bool.or_eq_false_iff, beq_eq_false_iff_ne, ne_eq] at hc
    obtain ⟨⟨⟨⟨⟨h1, h2⟩, h3⟩, h4⟩, h5⟩, h6⟩ := hc
    have step : wordsAux 0 false cur acc (c :: (cs ++ rest)) = wordsAux 0 false (c :: cur) acc (cs ++ rest) := by
      rw [wordsAux]
      simp [h1, h2, h3, h4, h5, h6]
    rw [List.cons_append, step, ih hw.2]
    simp

def joinB : List Text → Text
  | [] => []
  | [a] => a
  | a :: l => a ++ ' ' :: joinB l

/-- **Simple words joined by single blanks are read back as those words.** -/
theorem words_joinB : ∀ (ws : List Text) (acc : List Text), ws ≠ [] → (∀ w ∈ ws, SimpleW w) →
    wordsAux 0 false [] acc (joinB ws) = some (acc.reverse ++ ws)
  | [], _, h, _ => absurd rfl h
  | [a], acc, _, hs => by
    have ha := hs a (by simp)
    have := wordsAux_word a ha.2 [] acc []
    simp only [List.append_nil] at this
    simp only [joinB]
    rw [this]
    rw [wordsAux]
    simp [ha.1]
  | a :: b :: l, acc, _, hs => by
    have ha := hs a (by simp)
    have := wordsAux_word a ha.2 [] acc (' ' :: joinB (b :: l))
    simp only [joinB]
    rw [this]
    have hne : (a.reverse ++ []) ≠ [] := by simpa using ha.1
    rw [wordsAux]
    simp only [show (' ' == '"') = false from rfl, Bool.false_eq_true, if_false, show (' ' == '(') = false from rfl,
      show (' ' == ')') = false from rfl, beq_self_eq_true, Bool.true_or, Bool.and_self, if_true]
    have hne' : (a.reverse ++ []).isEmpty = false := by simpa using ha.1
    rw [hne']
    simp only [Bool.false_eq_true, if_false, List.append_nil, List.reverse_reverse]
    rw [words_joinB (b :: l) (a :: acc) (by simp) (fun w hw => hs w (by simp [hw]))]
    simp

theorem words_joinB' (ws : List Text) (h : ws ≠ []) (hs : ∀ w ∈ ws, SimpleW w) : words (joinB ws) = some ws := by
  unfold words
  rw [words_joinB ws [] h hs]; simp

theorem joinB_cons_flat (x : Text) : ∀ (ns : List Text), joinB (x :: ns) = x ++ (ns.map (fun n => ' ' :: n)).flatten
  | [] => by simp [joinB]
  | n :: ns => by
    simp only [joinB, List.map_cons, List.flatten_cons]
    rw [joinB_cons_flat n ns]
    simp

theorem joinB_append_cons (pre : List Text) (x : Text) (ns : List Text) :
    joinB (pre ++ x :: ns) = (pre.map (fun w => w ++ [' '])).flatten ++ joinB (x :: ns) := by
  induction pre with
  | nil => simp
  | cons p ps ih =>
    cases hps : ps ++ x :: ns with
    | nil => simp at hps
    | cons y ys =>
      simp only [List.cons_append, List.map_cons, List.flatten_cons]
      rw [hps] at ih ⊢
      simp only [joinB]
      rw [ih]
      simp

theorem stripComment_go_nohash : ∀ (t : Text) (q : Bool) (acc : Text), '#' ∉ t →
    stripComment.go q acc t = acc.reverse ++ t
  | [], q, acc, _ => by simp [stripComment.go]
  | c :: cs, q, acc, h => by
    have hc : c ≠ '#' := fun e => h (by simp [e])
    have hcs : '#' ∉ cs := fun e => h (by simp [e])
    rw [stripComment.go]
    by_cases hq : c = '"'
    · simp [hq, stripComment_go_nohash cs _ _ hcs]
    · have hcb : (c == '#') = false := by simpa using hc
      simp [hq, hcb, stripComment_go_nohash cs _ _ hcs]

theorem stripComment_nohash (t : Text) (h : '#' ∉ t) : stripComment t = t := by
  unfold stripComment
  rw [stripComment_go_nohash t false [] h]; simp

theorem trimR_comma (b : Text) : trimR (b ++ [',']) = b ++ [','] := by
  unfold trimR
  simp [List.reverse_append]

/-- the words a qualifier prints -/
def qualWords (audit deny : Bool) : List Text :=
  (if audit then [S "audit"] else []) ++ (if deny then [S "deny"] else [])

def capRule (audit deny : Bool) (names : List Text) : Rule :=
  { kind := "capability", audit := audit, accessType := if deny then S "deny" else [], flds := [.l names] }

theorem render_capability (audit deny : Bool) (names : List Text) :
    renderRule (capRule audit deny names) (padOf []) = joinB (qualWords audit deny ++ S "capability" :: names) ++ [','] := by
  rw [joinB_append_cons, joinB_cons_flat]
  cases audit <;> cases deny <;>
    simp [renderRule, capRule, renderQual, renderComment, padOf, qualWords, fL, Rule.fld, Fld.list, S]

theorem readBody_capability (T : Tables) (q : Q) (rest : List Text) :
    readBody T q (S "capability" :: rest) =
      if q.owner then none
      else if rest.all (fun n => (reqValues T "capability" "name").contains n) then
        some (mkR "capability" q [.l (sortedBy T "capability" "name" rest)])
      else none := by
  unfold readBody
  have : (S "capability" == S "capability") = true := by decide
  simp only [this, if_true]

/-- **The reference reader on a printed capability rule** — any qualifier, any list of names that are
in the table and are simple words without `#` (checked for the whole regenerated table in `Props/C12`). -/
theorem read_capability (T : Tables) (audit deny : Bool) (names : List Text)
    (hs : ∀ n ∈ names, SimpleW n ∧ '#' ∉ n ∧ n.getLast? ≠ some ',')
    (hm : ∀ n ∈ names, (reqValues T "capability" "name").contains n = true) :
    read T (renderRule (capRule audit deny names) (padOf [])) =
      some (mkR "capability" { audit := audit, deny := deny, owner := false } [.l (sortedBy T "capability" "name" names)]) := by
  rw [render_capability]
  have hws : ∀ w ∈ qualWords audit deny ++ S "capability" :: names, SimpleW w ∧ '#' ∉ w ∧ w.getLast? ≠ some ',' := by
    intro w hw
    rw [List.mem_append] at hw
    rcases hw with hw | hw
    · cases audit <;> cases deny <;> simp [qualWords] at hw
      all_goals (first | (rcases hw with rfl | rfl) | subst hw) <;> exact ⟨⟨by decide, by decide⟩, by decide, by decide⟩
    · simp only [List.mem_cons] at hw
      rcases hw with rfl | hw
      · exact ⟨⟨by decide, by decide⟩, by decide, by decide⟩
      · exact hs w hw
  have hnc : (qualWords audit deny ++ S "capability" :: names).any (fun w => w.getLast? == some ',') = false := by
    rw [List.any_eq_false]
    intro w hw
    simpa using (hws w hw).2.2
  have hne : qualWords audit deny ++ S "capability" :: names ≠ [] := by simp
  -- no '#' in the line
  have hnh : '#' ∉ joinB (qualWords audit deny ++ S "capability" :: names) ++ [','] := by
    generalize qualWords audit deny ++ S "capability" :: names = ws at hws
    intro hmem
    rw [List.mem_append] at hmem
    rcases hmem with hmem | hmem
    · induction ws with
      | nil => simp [joinB] at hmem
      | cons a l ih =>
        cases l with
        | nil => exact (hws a (by simp)).2.1 (by simpa [joinB] using hmem)
        | cons b l' =>
          simp only [joinB, List.mem_append, List.mem_cons] at hmem
          rcases hmem with h | h | h
          · exact (hws a (by simp)).2.1 h
          · cases h
          · exact ih (fun w hw => hws w (by simp [hw])) h
    · simp at hmem
  unfold read
  simp only [stripComment_nohash _ hnh, trimR_comma, List.getLast?_append, List.getLast?_singleton, Option.some_or,
    List.dropLast_concat]
  rw [words_joinB' _ hne (fun w hw => (hws w hw).1)]
  simp only [hnc, Bool.false_eq_true, if_false]
  have hall : (names.all fun n => (reqValues T "capability" "name").contains n) = true := by
    rw [List.all_eq_true]; exact hm
  cases audit <;> cases deny <;>
    simp [qualWords, readQual, S] <;>
    (rw [show (['c', 'a', 'p', 'a', 'b', 'i', 'l', 'i', 't', 'y'] : Text) = S "capability" from rfl, readBody_capability]; simp; intro x hx; simpa using hm x hx)

end Ref

namespace Ref
open Aa

/-! ### file rules: any path, any permission string -/

/-- a path word: starts with `/` or `@` -/
def PathHead (p : Text) : Prop := ∃ c cs, p = c :: cs ∧ (c = '/' ∨ c = '@')

def fileRule (audit deny owner : Bool) (p : Text) (acc : List Text) : Rule :=
  { kind := "file", audit := audit, accessType := if deny then S "deny" else [],
    flds := [.b owner, .s p, .l acc, .s []] }

def fileWords (audit deny owner : Bool) : List Text :=
  qualWords audit deny ++ (if owner then [S "owner"] else [])

theorem render_file (audit deny owner : Bool) (p : Text) (acc : List Text) :
    renderRule (fileRule audit deny owner p acc) (padOf []) =
      joinB (fileWords audit deny owner ++ [p, acc.flatten]) ++ [','] := by
  cases audit <;> cases deny <;> cases owner <;>
    simp [renderRule, fileRule, renderQual, renderComment, padOf, qualWords, fileWords, fL, fS, fB, Rule.fld, Fld.list,
      Fld.str, Fld.bool, S, joinB, withS]

theorem ne_kw_of_pathHead {p : Text} (h : PathHead p) (k : String)
    (hk : ∀ c, k.toList.head? = some c → c ≠ '/' ∧ c ≠ '@') (hne : k.toList ≠ []) : (p == S k) = false := by
  obtain ⟨c, cs, rfl, hc⟩ := h
  cases hkl : k.toList with
  | nil => exact absurd hkl hne
  | cons d ds =>
    have := hk d (by simp [hkl])
    simp only [S, hkl, beq_eq_false_iff_ne, ne_eq, List.cons.injEq, not_and]
    intro e
    rcases hc with rfl | rfl
    · exact absurd e.symm this.1
    · exact absurd e.symm this.2

end Ref

namespace Ref
open Aa

theorem readBody_file (T : Tables) (q : Q) (p m : Text) (hp : PathHead p) (hpt : isPathTok p = true) :
    readBody T q [p, m] = (readMode T m).map (fun a => mkR "file" q [.b q.owner, .s p, .l a, .s []]) := by
  have k1 := ne_kw_of_pathHead hp "capability" (by decide) (by decide)
  have k2 := ne_kw_of_pathHead hp "network" (by decide) (by decide)
  have k3 := ne_kw_of_pathHead hp "signal" (by decide) (by decide)
  have k4 := ne_kw_of_pathHead hp "ptrace" (by decide) (by decide)
  have k5 := ne_kw_of_pathHead hp "set" (by decide) (by decide)
  have k6 := ne_kw_of_pathHead hp "change_profile" (by decide) (by decide)
  have k7 := ne_kw_of_pathHead hp "link" (by decide) (by decide)
  unfold readBody
  simp only [k1, k2, k3, k4, k5, k6, k7, Bool.false_eq_true, if_false, Bool.or_self, hpt, if_true]

theorem readQual_stop (q : Q) (p : Text) (rest : List Text) (hp : PathHead p) (f : Nat) :
    readQual (f + 1) q (p :: rest) = some (q, p :: rest) := by
  have k1 := ne_kw_of_pathHead hp "audit" (by decide) (by decide)
  have k2 := ne_kw_of_pathHead hp "deny" (by decide) (by decide)
  have k3 := ne_kw_of_pathHead hp "allow" (by decide) (by decide)
  have k4 := ne_kw_of_pathHead hp "owner" (by decide) (by decide)
  simp [readQual, k1, k2, k3, k4]

theorem readQual_audit (f : Nat) (r : List Text) :
    readQual (f + 1) {} (S "audit" :: r) = readQual f { audit := true } r := by
  rw [readQual]; simp [S]

theorem readQual_deny (f : Nat) (a : Bool) (r : List Text) :
    readQual (f + 1) { audit := a } (S "deny" :: r) = readQual f { audit := a, deny := true } r := by
  rw [readQual]; cases a <;> simp [S]

theorem readQual_owner (f : Nat) (a d : Bool) (r : List Text) :
    readQual (f + 1) { audit := a, deny := d } (S "owner" :: r) = readQual f { audit := a, deny := d, owner := true } r := by
  rw [readQual]; cases a <;> cases d <;> simp [S]

theorem readQual_fileWords (audit deny owner : Bool) (p : Text) (rest : List Text) (hp : PathHead p) :
    readQual 5 {} (fileWords audit deny owner ++ p :: rest) =
      some ({ audit := audit, deny := deny, owner := owner }, p :: rest) := by
  cases audit <;> cases deny <;> cases owner <;>
    simp only [fileWords, qualWords, if_true, if_false, Bool.false_eq_true, List.nil_append, List.cons_append,
      List.append_nil, readQual_audit, readQual_deny, readQual_owner, readQual_stop _ _ _ hp]

/-- **The reference reader on a printed file rule** — any qualifier, with or without `owner`, ANY path
word (starts with `/` or `@`, no blank, quote, parenthesis or `#`, accepted as a path token) and ANY
non-empty permission string without those characters: the reader finds the path exactly as the rule
states it, and reads the permission string the printer wrote. -/
theorem read_file (T : Tables) (audit deny owner : Bool) (p : Text) (acc : List Text)
    (hp : PathHead p) (hps : SimpleW p ∧ '#' ∉ p ∧ p.getLast? ≠ some ',') (hpt : isPathTok p = true)
    (hm : SimpleW acc.flatten ∧ '#' ∉ acc.flatten ∧ acc.flatten.getLast? ≠ some ',') :
    read T (renderRule (fileRule audit deny owner p acc) (padOf [])) =
      (readMode T acc.flatten).map (fun a =>
        mkR "file" { audit := audit, deny := deny, owner := owner } [.b owner, .s p, .l a, .s []]) := by
  rw [render_file]
  have hws : ∀ w ∈ fileWords audit deny owner ++ [p, acc.flatten], SimpleW w ∧ '#' ∉ w ∧ w.getLast? ≠ some ',' := by
    intro w hw
    rw [List.mem_append] at hw
    rcases hw with hw | hw
    · cases audit <;> cases deny <;> cases owner <;> simp [fileWords, qualWords] at hw
      all_goals (first | (rcases hw with rfl | rfl | rfl) | (rcases hw with rfl | rfl) | subst hw) <;>
        exact ⟨⟨by decide, by decide⟩, by decide, by decide⟩
    · simp only [List.mem_cons, List.not_mem_nil, or_false] at hw
      rcases hw with rfl | rfl
      · exact hps
      · exact hm
  have hne : fileWords audit deny owner ++ [p, acc.flatten] ≠ [] := by simp
  have hnh : '#' ∉ joinB (fileWords audit deny owner ++ [p, acc.flatten]) ++ [','] := by
    generalize fileWords audit deny owner ++ [p, acc.flatten] = ws at hws
    intro hmem
    rw [List.mem_append] at hmem
    rcases hmem with hmem | hmem
    · induction ws with
      | nil => simp [joinB] at hmem
      | cons a l ih =>
        cases l with
        | nil => exact (hws a (by simp)).2.1 (by simpa [joinB] using hmem)
        | cons b l' =>
          simp only [joinB, List.mem_append, List.mem_cons] at hmem
          rcases hmem with h | h | h
          · exact (hws a (by simp)).2.1 h
          · cases h
          · exact ih (fun w hw => hws w (by simp [hw])) h
    · simp at hmem
  unfold read
  simp only [stripComment_nohash _ hnh, trimR_comma, List.getLast?_append, List.getLast?_singleton, Option.some_or,
    List.dropLast_concat]
  rw [words_joinB' _ hne (fun w hw => (hws w hw).1)]
  have hnc : (fileWords audit deny owner ++ [p, acc.flatten]).any (fun w => w.getLast? == some ',') = false := by
    rw [List.any_eq_false]
    intro w hw
    simpa using (hws w hw).2.2
  simp only [hnc, Bool.false_eq_true, if_false]
  simp only [readQual_fileWords audit deny owner p [acc.flatten] hp, readBody_file T _ p _ hp hpt]

end Ref

namespace Ref
open Aa

/-! ### network rules: every domain with every type -/

def netRule (audit deny : Bool) (d t : Text) : Rule :=
  { kind := "network", audit := audit, accessType := if deny then S "deny" else [],
    flds := [.s [], .s [], .s [], .s d, .s t, .s []] }

theorem render_network (audit deny : Bool) (d t : Text) (hd : d ≠ []) (ht : t ≠ []) :
    renderRule (netRule audit deny d t) (padOf []) = joinB (qualWords audit deny ++ [S "network", d, t]) ++ [','] := by
  have hd' : d.isEmpty = false := by cases d <;> simp_all
  have ht' : t.isEmpty = false := by cases t <;> simp_all
  cases audit <;> cases deny <;>
    simp [renderRule, netRule, renderQual, renderComment, padOf, qualWords, fS, Rule.fld, Fld.str, S, joinB, withS, hd', ht']

theorem readBody_network2 (T : Tables) (q : Q) (d t : Text) :
    readBody T q [S "network", d, t] =
      if q.owner then none
      else if !(reqValues T "network" "domains").contains d then none
      else if (reqValues T "network" "type").contains t then some (mkR "network" q [.s [], .s [], .s [], .s d, .s t, .s []])
      else if (reqValues T "network" "protocol").contains t then some (mkR "network" q [.s [], .s [], .s [], .s d, .s [], .s t])
      else none := by
  unfold readBody
  have h1 : (S "network" == S "capability") = false := by decide
  have h2 : (S "network" == S "network") = true := by decide
  simp only [h1, h2, Bool.false_eq_true, if_false, if_true]

theorem readQual_qualWords (audit deny : Bool) (w : Text) (rest : List Text)
    (h1 : (w == S "audit") = false) (h2 : (w == S "deny") = false) (h3 : (w == S "allow") = false) (h4 : (w == S "owner") = false) :
    readQual 5 {} (qualWords audit deny ++ w :: rest) = some ({ audit := audit, deny := deny, owner := false }, w :: rest) := by
  have stop : ∀ (f : Nat) (q : Q), readQual (f + 1) q (w :: rest) = some (q, w :: rest) := by
    intro f q; simp [readQual, h1, h2, h3, h4]
  cases audit <;> cases deny <;>
    simp only [qualWords, if_true, if_false, Bool.false_eq_true, List.nil_append, List.cons_append, List.append_nil,
      readQual_audit, readQual_deny, stop]

/-- **The reference reader on a printed network rule**: every qualifier, every domain of the table with
every socket type of the table. -/
theorem read_network (T : Tables) (audit deny : Bool) (d t : Text)
    (hd : SimpleW d ∧ '#' ∉ d ∧ d.getLast? ≠ some ',') (ht : SimpleW t ∧ '#' ∉ t ∧ t.getLast? ≠ some ',')
    (hdm : (reqValues T "network" "domains").contains d = true) (htm : (reqValues T "network" "type").contains t = true) :
    read T (renderRule (netRule audit deny d t) (padOf [])) =
      some (mkR "network" { audit := audit, deny := deny, owner := false } [.s [], .s [], .s [], .s d, .s t, .s []]) := by
  rw [render_network audit deny d t hd.1.1 ht.1.1]
  have hws : ∀ w ∈ qualWords audit deny ++ [S "network", d, t], SimpleW w ∧ '#' ∉ w ∧ w.getLast? ≠ some ',' := by
    intro w hw
    rw [List.mem_append] at hw
    rcases hw with hw | hw
    · cases audit <;> cases deny <;> simp [qualWords] at hw
      all_goals (first | (rcases hw with rfl | rfl) | subst hw) <;> exact ⟨⟨by decide, by decide⟩, by decide, by decide⟩
    · simp only [List.mem_cons, List.not_mem_nil, or_false] at hw
      rcases hw with rfl | rfl | rfl
      · exact ⟨⟨by decide, by decide⟩, by decide, by decide⟩
      · exact hd
      · exact ht
  have hne : qualWords audit deny ++ [S "network", d, t] ≠ [] := by simp
  have hnh : '#' ∉ joinB (qualWords audit deny ++ [S "network", d, t]) ++ [','] := by
    generalize qualWords audit deny ++ [S "network", d, t] = ws at hws
    intro hmem
    rw [List.mem_append] at hmem
    rcases hmem with hmem | hmem
    · induction ws with
      | nil => simp [joinB] at hmem
      | cons a l ih =>
        cases l with
        | nil => exact (hws a (by simp)).2.1 (by simpa [joinB] using hmem)
        | cons b l' =>
          simp only [joinB, List.mem_append, List.mem_cons] at hmem
          rcases hmem with h | h | h
          · exact (hws a (by simp)).2.1 h
          · cases h
          · exact ih (fun w hw => hws w (by simp [hw])) h
    · simp at hmem
  unfold read
  simp only [stripComment_nohash _ hnh, trimR_comma, List.getLast?_append, List.getLast?_singleton, Option.some_or,
    List.dropLast_concat]
  rw [words_joinB' _ hne (fun w hw => (hws w hw).1)]
  have hnc : (qualWords audit deny ++ [S "network", d, t]).any (fun w => w.getLast? == some ',') = false := by
    rw [List.any_eq_false]
    intro w hw
    simpa using (hws w hw).2.2
  simp only [hnc, Bool.false_eq_true, if_false]
  rw [readQual_qualWords audit deny (S "network") [d, t] (by decide) (by decide) (by decide) (by decide)]
  simp only [readBody_network2, hdm, htm, Bool.not_true, Bool.false_eq_true, if_false, if_true]

end Ref
