import AaVerif.Ref.Grammar
/-!
# Ref.GrammarLemmas — the reference reader on printed capability rules, for every list of names

`words` splits a line made of *simple* words (no quote, parenthesis or blank) joined by single blanks
into exactly those words; with it, `Ref.read` is computed symbolically on the text the printer
model produces for a capability rule with any qualifier and any list of names.
-/
namespace Ref
open Aa

def simpleCh (c : Char) : Bool := !(c == '"' || c == '(' || c == ')' || c == ' ' || c == '\t' || c == '\n')

def SimpleW (w : Text) : Prop := w ≠ [] ∧ w.all simpleCh = true

instance (w : Text) : Decidable (SimpleW w) := by unfold SimpleW; infer_instance

/-- running over a simple word only grows the current word -/
theorem wordsAux_word (w : Text) (hw : w.all simpleCh = true) :
    ∀ (cur : Text) (acc : List Text) (rest : Text),
      wordsAux 0 false cur acc (w ++ rest) = wordsAux 0 false (w.reverse ++ cur) acc rest := by
  induction w with
  | nil => intro cur acc rest; rfl
  | cons c cs ih =>
    intro cur acc rest
    simp only [List.all_cons, Bool.and_eq_true] at hw
    have hc := hw.1
    simp only [simpleCh, Bool.not_eq_true', Bool.or_eq_false_iff, beq_eq_false_iff_ne, ne_eq] at hc
    obtain ⟨⟨⟨⟨⟨h1, h2⟩, h3⟩, h4⟩, h5⟩, h6⟩ := hc
    have step : wordsAux 0 false cur acc (c :: (cs ++ rest)) = wordsAux 0 false (c :: cur) acc (cs ++ rest) := by
      rw [wordsAux]
      simp [h1, h2, h3, h4, h5, h6]
    rw [List.cons_append, step, ih hw.2]
    simp

def joinB : List Text → Text
  | [] => []
  | [a] => a
  | a :: l => a ++ ' ' :: joinB l

/-- **Simple words joined by single blanks are read back as those words.** -/
theorem words_joinB : ∀ (ws : List Text) (acc : List Text), ws ≠ [] → (∀ w ∈ ws, SimpleW w) →
    wordsAux 0 false [] acc (joinB ws) = some (acc.reverse ++ ws)
  | [], _, h, _ => absurd rfl h
  | [a], acc, _, hs => by
    have ha := hs a (by simp)
    have := wordsAux_word a ha.2 [] acc []
    simp only [List.append_nil] at this
    simp only [joinB]
    rw [this]
    rw [wordsAux]
    simp [ha.1]
  | a :: b :: l, acc, _, hs => by
    have ha := hs a (by simp)
    have := wordsAux_word a ha.2 [] acc (' ' :: joinB (b :: l))
    simp only [joinB]
    rw [this]
    have hne : (a.reverse ++ []) ≠ [] := by simpa using ha.1
    rw [wordsAux]
    simp only [show (' ' == '"') = false from rfl, Bool.false_eq_true, if_false, show (' ' == '(') = false from rfl,
      show (' ' == ')') = false from rfl, beq_self_eq_true, Bool.true_or, Bool.and_self, if_true]
    have hne' : (a.reverse ++ []).isEmpty = false := by simpa using ha.1
    rw [hne']
    simp only [Bool.false_eq_true, if_false, List.append_nil, List.reverse_reverse]
    rw [words_joinB (b :: l) (a :: acc) (by simp) (fun w hw => hs w (by simp [hw]))]
    simp

theorem words_joinB' (ws : List Text) (h : ws ≠ []) (hs : ∀ w ∈ ws, SimpleW w) : words (joinB ws) = some ws := by
  unfold words
  rw [words_joinB ws [] h hs]; simp

theorem joinB_cons_flat (x : Text) : ∀ (ns : List Text), joinB (x :: ns) = x ++ (ns.map (fun n => ' ' :: n)).flatten
  | [] => by simp [joinB]
  | n :: ns => by
    simp only [joinB, List.map_cons, List.flatten_cons]
    rw [joinB_cons_flat n ns]
    simp

theorem joinB_append_cons (pre : List Text) (x : Text) (ns : List Text) :
    joinB (pre ++ x :: ns) = (pre.map (fun w => w ++ [' '])).flatten ++ joinB (x :: ns) := by
  induction pre with
  | nil => simp
  | cons p ps ih =>
    cases hps : ps ++ x :: ns with
    | nil => simp at hps
    | cons y ys =>
      simp only [List.cons_append, List.map_cons, List.flatten_cons]
      rw [hps] at ih ⊢
      simp only [joinB]
      rw [ih]
      simp

theorem stripComment_go_nohash : ∀ (t : Text) (q : Bool) (acc : Text), '#' ∉ t →
    stripComment.go q acc t = acc.reverse ++ t
  | [], q, acc, _ => by simp [stripComment.go]
  | c :: cs, q, acc, h => by
    have hc : c ≠ '#' := fun e => h (by simp [e])
    have hcs : '#' ∉ cs := fun e => h (by simp [e])
    rw [stripComment.go]
    by_cases hq : c = '"'
    · simp [hq, stripComment_go_nohash cs _ _ hcs]
    · have hcb : (c == '#') = false := by simpa using hc
      simp [hq, hcb, stripComment_go_nohash cs _ _ hcs]

theorem stripComment_nohash (t : Text) (h : '#' ∉ t) : stripComment t = t := by
  unfold stripComment
  rw [stripComment_go_nohash t false [] h]; simp

theorem trimR_comma (b : Text) : trimR (b ++ [',']) = b ++ [','] := by
  unfold trimR
  simp [List.reverse_append]

/-- the words a qualifier prints -/
def qualWords (audit deny : Bool) : List Text :=
  (if audit then [S "audit"] else []) ++ (if deny then [S "deny"] else [])

def capRule (audit deny : Bool) (names : List Text) : Rule :=
  { kind := "capability", audit := audit, accessType := if deny then S "deny" else [], flds := [.l names] }

theorem render_capability (audit deny : Bool) (names : List Text) :
    renderRule (capRule audit deny names) (padOf []) = joinB (qualWords audit deny ++ S "capability" :: names) ++ [','] := by
  rw [joinB_append_cons, joinB_cons_flat]
  cases audit <;> cases deny <;>
    simp [renderRule, capRule, renderQual, renderComment, padOf, qualWords, fL, Rule.fld, Fld.list, S]

theorem readBody_capability (T : Tables) (q : Q) (rest : List Text) :
    readBody T q (S "capability" :: rest) =
      if q.owner then none
      else if rest.all (fun n => (reqValues T "capability" "name").contains n) then
        some (mkR "capability" q [.l (sortedBy T "capability" "name" rest)])
      else none := by
  unfold readBody
  have : (S "capability" == S "capability") = true := by decide
  simp only [this, if_true]

/-- **The reference reader on a printed capability rule** — any qualifier, any list of names that are
in the table and are simple words without `#` (checked for the whole regenerated table in `Props/C12`). -/
theorem read_capability (T : Tables) (audit deny : Bool) (names : List Text)
    (hs : ∀ n ∈ names, SimpleW n ∧ '#' ∉ n)
    (hm : ∀ n ∈ names, (reqValues T "capability" "name").contains n = true) :
    read T (renderRule (capRule audit deny names) (padOf [])) =
      some (mkR "capability" { audit := audit, deny := deny, owner := false } [.l (sortedBy T "capability" "name" names)]) := by
  rw [render_capability]
  have hws : ∀ w ∈ qualWords audit deny ++ S "capability" :: names, SimpleW w ∧ '#' ∉ w := by
    intro w hw
    rw [List.mem_append] at hw
    rcases hw with hw | hw
    · cases audit <;> cases deny <;> simp [qualWords] at hw
      all_goals (first | (rcases hw with rfl | rfl) | subst hw) <;> exact ⟨⟨by decide, by decide⟩, by decide⟩
    · simp only [List.mem_cons] at hw
      rcases hw with rfl | hw
      · exact ⟨⟨by decide, by decide⟩, by decide⟩
      · exact hs w hw
  have hne : qualWords audit deny ++ S "capability" :: names ≠ [] := by simp
  -- no '#' in the line
  have hnh : '#' ∉ joinB (qualWords audit deny ++ S "capability" :: names) ++ [','] := by
    generalize qualWords audit deny ++ S "capability" :: names = ws at hws
    intro hmem
    rw [List.mem_append] at hmem
    rcases hmem with hmem | hmem
    · induction ws with
      | nil => simp [joinB] at hmem
      | cons a l ih =>
        cases l with
        | nil => exact (hws a (by simp)).2 (by simpa [joinB] using hmem)
        | cons b l' =>
          simp only [joinB, List.mem_append, List.mem_cons] at hmem
          rcases hmem with h | h | h
          · exact (hws a (by simp)).2 h
          · cases h
          · exact ih (fun w hw => hws w (by simp [hw])) h
    · simp at hmem
  unfold read
  simp only [stripComment_nohash _ hnh, trimR_comma, List.getLast?_append, List.getLast?_singleton, Option.some_or,
    List.dropLast_concat]
  rw [words_joinB' _ hne (fun w hw => (hws w hw).1)]
  have hall : (names.all fun n => (reqValues T "capability" "name").contains n) = true := by
    rw [List.all_eq_true]; exact hm
  cases audit <;> cases deny <;>
    simp [qualWords, readQual, S] <;>
    (rw [show (['c', 'a', 'p', 'a', 'b', 'i', 'l', 'i', 't', 'y'] : Text) = S "capability" from rfl, readBody_capability]; simp; intro x hx; simpa using hm x hx)

end Ref
