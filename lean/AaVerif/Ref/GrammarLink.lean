import AaVerif.Ref.GrammarChangeProfile
import AaVerif.Aa.ParseLink
/-!
# Ref.GrammarLink — the reference reader on a printed link rule

Every qualifier, owner and subset flag, every keyword-like word the reference syntax takes for a path, as link and as target.
-/
namespace Ref
open Aa Aa.Parse

theorem fileWords_eq (audit deny owner : Bool) : fileWords audit deny owner = qualWords audit deny ++ ownerW owner := by
  cases owner <;> simp [fileWords, ownerW]

theorem readQual_link (audit deny owner : Bool) (rest : List Text) :
    readQual 5 {} (qualWords audit deny ++ ownerW owner ++ S "link" :: rest) =
      some ({ audit := audit, deny := deny, owner := owner }, S "link" :: rest) := by
  have stop : ∀ (f : Nat) (q : Q), readQual (f + 1) q (S "link" :: rest) = some (q, S "link" :: rest) := by
    intro f q; simp [readQual, S]
  cases audit <;> cases deny <;> cases owner <;>
    simp only [ownerW, qualWords, if_true, if_false, Bool.false_eq_true, List.nil_append, List.cons_append,
      List.append_nil, readQual_audit, readQual_deny, readQual_owner, stop]

theorem readBody_link (T : Tables) (q : Q) (subset : Bool) (a b : Text) (ha : isPathTok a = true) (hb : isPathTok b = true)
    (hns : (a == S "subset") = false) :
    readBody T q (S "link" :: linkBody subset a b) = some (mkR "link" q [.b q.owner, .b subset, .s a, .s b]) := by
  unfold readBody
  simp only []
  repeat (first | rw [if_pos (by decide)] | rw [if_neg (by decide)])
  have hns' : a ≠ S "subset" := by simpa using hns
  cases subset
  · have hns'' : ¬ a = ['s', 'u', 'b', 's', 'e', 't'] := by simpa [S] using hns'
    simp [linkBody, subsetW, hns'', ha, hb, S]
  · simp [linkBody, subsetW, ha, hb, S]

theorem read_link (T : Tables) (audit deny owner subset : Bool) (a b : Text)
    (hca : CapW a) (ha : isPathTok a = true) (hns : (a == S "subset") = false) (hcb : CapW b) (hb : isPathTok b = true) :
    read T (renderRule (linkRule audit deny owner subset a b) (padOf [])) =
      some (mkR "link" { audit := audit, deny := deny, owner := owner } [.b owner, .b subset, .s a, .s b]) := by
  rw [render_link audit deny owner subset a b hcb.1]
  have hws : ∀ w ∈ qualWords audit deny ++ ownerW owner ++ S "link" :: linkBody subset a b,
      SimpleW w ∧ '#' ∉ w ∧ w.getLast? ≠ some ',' := by
    intro w hw
    simp only [List.mem_append, List.mem_cons, linkBody, List.not_mem_nil, or_false] at hw
    rcases hw with (hw | hw) | rfl | hw | rfl | rfl | rfl
    · cases audit <;> cases deny <;> simp [qualWords] at hw
      all_goals (first | (rcases hw with rfl | rfl) | subst hw) <;> exact ⟨⟨by decide, by decide⟩, by decide, by decide⟩
    · cases owner <;> simp [ownerW] at hw
      subst hw; exact ⟨⟨by decide, by decide⟩, by decide, by decide⟩
    · exact ⟨⟨by decide, by decide⟩, by decide, by decide⟩
    · cases subset <;> simp [subsetW] at hw
      subst hw; exact ⟨⟨by decide, by decide⟩, by decide, by decide⟩
    · exact capW_simpleW hca
    · exact ⟨⟨by decide, by decide⟩, by decide, by decide⟩
    · exact capW_simpleW hcb
  have hnc : (qualWords audit deny ++ ownerW owner ++ S "link" :: linkBody subset a b).any (fun w => w.getLast? == some ',') = false := by
    rw [List.any_eq_false]
    intro w hw
    simpa using (hws w hw).2.2
  have hnh : '#' ∉ joinB (qualWords audit deny ++ ownerW owner ++ S "link" :: linkBody subset a b) ++ [','] := by
    generalize qualWords audit deny ++ ownerW owner ++ S "link" :: linkBody subset a b = ws at hws
    intro hmem
    rw [List.mem_append] at hmem
    rcases hmem with hmem | hmem
    · induction ws with
      | nil => simp [joinB] at hmem
      | cons a l ih =>
        cases l with
        | nil => exact (hws a (by simp)).2.1 (by simpa [joinB] using hmem)
        | cons b l' =>
          simp only [joinB, List.mem_append, List.mem_cons] at hmem
          rcases hmem with h | h | h
          · exact (hws a (by simp)).2.1 h
          · cases h
          · exact ih (fun w hw => hws w (by simp [hw])) h
    · simp at hmem
  unfold read
  simp only [stripComment_nohash _ hnh, trimR_comma, List.getLast?_append, List.getLast?_singleton, Option.some_or,
    List.dropLast_concat]
  rw [words_joinB' _ (by simp) (fun w hw => (hws w hw).1)]
  simp only [hnc, Bool.false_eq_true, if_false]
  rw [readQual_link]
  simp only
  exact readBody_link T _ subset a b ha hb hns

end Ref
