import AaVerif.Ref.GrammarLemmas
import AaVerif.Aa.ParsePtrace
/-!
# Ref.GrammarPtrace — the reference reader on printed ptrace rules, symbolically

The printed rule holds a parenthesised access list `(read trace)` and a condition `peer=word`; the reader's own word
splitter keeps the group together, `listOf` opens it, `cond` reads the peer.
-/
namespace Ref
open Aa Aa.Parse

/-! ### the word splitter on a parenthesised group -/

/-- a character allowed inside a group: anything but a quote or a parenthesis -/
def innerCh (c : Char) : Bool := !(c == '"' || c == '(' || c == ')')

theorem wordsAux_inner (inner : Text) (h : inner.all innerCh = true) :
    ∀ (cur : Text) (acc : List Text) (rest : Text),
      wordsAux 1 false cur acc (inner ++ rest) = wordsAux 1 false (inner.reverse ++ cur) acc rest := by
  induction inner with
  | nil => intro cur acc rest; rfl
  | cons c cs ih =>
    intro cur acc rest
    simp only [List.all_cons, Bool.and_eq_true] at h
    have hc := h.1
    simp only [innerCh, Bool.not_eq_true', Bool.or_eq_false_iff, beq_eq_false_iff_ne, ne_eq] at hc
    obtain ⟨⟨h1, h2⟩, h3⟩ := hc
    have step : wordsAux 1 false cur acc (c :: (cs ++ rest)) = wordsAux 1 false (c :: cur) acc (cs ++ rest) := by
      rw [wordsAux]
      simp [h1, h2, h3]
    rw [List.cons_append, step, ih h.2]
    simp

/-- a group `( … )` is one word for the splitter -/
theorem wordsAux_group (inner : Text) (h : inner.all innerCh = true) (cur : Text) (acc : List Text) (rest : Text) :
    wordsAux 0 false cur acc ('(' :: inner ++ ')' :: rest) =
      wordsAux 0 false (('(' :: inner ++ [')']).reverse ++ cur) acc rest := by
  show wordsAux 0 false cur acc ('(' :: (inner ++ ')' :: rest)) = _
  rw [wordsAux]
  simp only [Char.reduceBEq, Bool.false_eq_true, if_false, if_true, Nat.zero_add]
  rw [wordsAux_inner inner h, wordsAux]
  simp

/-- a word of a printed rule: a simple word, or a group -/
def GW (w : Text) : Prop := SimpleW w ∨ ∃ inner, inner.all innerCh = true ∧ w = '(' :: inner ++ [')']

theorem gw_ne_nil {w : Text} (h : GW w) : w ≠ [] := by
  rcases h with h | ⟨inner, _, rfl⟩
  · exact h.1
  · simp

theorem wordsAux_gw (w : Text) (hw : GW w) (cur : Text) (acc : List Text) (rest : Text) :
    wordsAux 0 false cur acc (w ++ rest) = wordsAux 0 false (w.reverse ++ cur) acc rest := by
  rcases hw with h | ⟨inner, hi, rfl⟩
  · exact wordsAux_word w h.2 cur acc rest
  · have := wordsAux_group inner hi cur acc rest
    simpa using this

/-- **Words and groups joined by single blanks are read back as they are.** -/
theorem words_joinG : ∀ (ws : List Text) (acc : List Text), ws ≠ [] → (∀ w ∈ ws, GW w) →
    wordsAux 0 false [] acc (joinB ws) = some (acc.reverse ++ ws)
  | [], _, h, _ => absurd rfl h
  | [a], acc, _, hs => by
    have ha := hs a (by simp)
    have := wordsAux_gw a ha [] acc []
    simp only [List.append_nil] at this
    simp only [joinB]
    rw [this]
    rw [wordsAux]
    have hne : a.reverse.isEmpty = false := by
      have := gw_ne_nil ha
      cases a <;> simp_all
    simp [hne]
  | a :: b :: l, acc, _, hs => by
    have ha := hs a (by simp)
    have := wordsAux_gw a ha [] acc (' ' :: joinB (b :: l))
    simp only [joinB]
    rw [this]
    rw [wordsAux]
    simp only [show (' ' == '"') = false from rfl, Bool.false_eq_true, if_false, show (' ' == '(') = false from rfl,
      show (' ' == ')') = false from rfl, beq_self_eq_true, Bool.true_or, Bool.and_self, if_true]
    have hne' : (a.reverse ++ []).isEmpty = false := by
      have := gw_ne_nil ha
      cases a <;> simp_all
    rw [hne']
    simp only [Bool.false_eq_true, if_false, List.append_nil, List.reverse_reverse]
    rw [words_joinG (b :: l) (a :: acc) (by simp) (fun w hw => hs w (by simp [hw]))]
    simp

theorem words_joinG' (ws : List Text) (h : ws ≠ []) (hs : ∀ w ∈ ws, GW w) : words (joinB ws) = some ws := by
  unfold words
  rw [words_joinG ws [] h hs]; simp

/-! ### the access list and the peer condition -/

theorem capW_simpleW {w : Text} (h : CapW w) : SimpleW w ∧ '#' ∉ w ∧ w.getLast? ≠ some ',' := by
  have hall := fun c hc => capCh_spec (List.all_eq_true.mp h.2 c hc)
  refine ⟨⟨h.1, ?_⟩, ?_, ?_⟩
  · rw [List.all_eq_true]
    intro c hc
    obtain ⟨h1, h2, h3, h4, h5, h6, _⟩ := hall c hc
    simp only [isOpenB, isCloseB, Bool.or_eq_false_iff, beq_eq_false_iff_ne, ne_eq] at h5 h6
    simp [simpleCh, h1, h2, h3, h4, h5.1.1, h6.1.1]
  · intro hm; have := (hall '#' hm).2.2.2.2.2.2.1; simp at this
  · intro hl
    have hm : ',' ∈ w := List.mem_of_getLast? hl
    have := (hall ',' hm).2.2.2.2.2.2.2.1; simp at this

theorem joinB_innerCh (ws : List Text) (h : ∀ w ∈ ws, CapW w) : (joinB ws).all innerCh = true := by
  rw [List.all_eq_true]
  intro c hc
  rcases joinB_chars ws h c hc with h1 | rfl
  · obtain ⟨_, _, _, h4, h5, h6, _⟩ := capCh_spec h1
    simp only [isOpenB, isCloseB, Bool.or_eq_false_iff, beq_eq_false_iff_ne, ne_eq] at h5 h6
    simp [innerCh, h4, h5.1.1, h6.1.1]
  · decide

theorem gw_cjoin (accs : List Text) (ha : accs ≠ []) (h : ∀ a ∈ accs, CapW a) : GW (cjoin accs) := by
  rcases cjoin_cases accs ha with ⟨a, rfl, e⟩ | ⟨_, e⟩
  · rw [e]; exact Or.inl (capW_simpleW (h a (List.mem_cons_self ..))).1
  · rw [e]; exact Or.inr ⟨joinB accs, joinB_innerCh accs h, rfl⟩

/-- the members of the printed access list -/
theorem listOf_cjoin (accs : List Text) (ha : accs ≠ []) (h : ∀ a ∈ accs, CapW a) : listOf (cjoin accs) = accs := by
  rcases cjoin_cases accs ha with ⟨a, rfl, e⟩ | ⟨_, e⟩
  · rw [e]
    obtain ⟨hne, hall⟩ := h a (List.mem_cons_self ..)
    cases a with
    | nil => exact absurd rfl hne
    | cons c cs =>
      simp only [List.all_cons, Bool.and_eq_true] at hall
      have h5 := (capCh_spec hall.1).2.2.2.2.1
      simp only [isOpenB, Bool.or_eq_false_iff, beq_eq_false_iff_ne, ne_eq] at h5
      unfold listOf
      split
      · next rest heq => cases heq; exact absurd rfl h5.1.1
      · rfl
  · rw [e]
    unfold listOf
    show List.filter (fun x => !x.isEmpty)
      (Proto.splitOnChar ' ' ((joinB accs ++ [')']).dropLast.map (fun c => if c == ',' then ' ' else c))) = accs
    rw [List.dropLast_concat]
    have hnc : (joinB accs).map (fun c => if c == ',' then ' ' else c) = joinB accs := by
      have : ∀ c ∈ joinB accs, (if c == ',' then ' ' else c) = id c := by
        intro c hc
        rcases joinB_chars accs h c hc with h1 | rfl
        · have := (capCh_spec h1).2.2.2.2.2.2.2.1
          simp [this]
        · rfl
      rw [List.map_congr_left this, List.map_id]
    rw [hnc]
    have := splitChar_joinB accs ha h
    unfold splitChar at this
    rw [this]
    apply List.filter_eq_self.mpr
    intro a ham
    have := (h a ham).1
    cases a <;> simp_all

theorem isPathTok_peer (p : Text) : isPathTok (S "peer=" ++ p) = false := by
  show isPathTok ('p' :: ('e' :: 'e' :: 'r' :: '=' :: p)) = false
  rfl

theorem eq_not_mem_cjoin (accs : List Text) (ha : accs ≠ []) (hc : ∀ a ∈ accs, CapW a) : '=' ∉ cjoin accs := by
  have hjeq : '=' ∉ joinB accs := by
    intro hm
    rcases joinB_chars accs hc '=' hm with h1 | h1
    · have := capCh_spec h1; simp at this
    · simp at h1
  rcases cjoin_cases accs ha with ⟨a, rfl, e⟩ | ⟨_, e⟩
  · rw [e]
    intro hm
    have := capCh_spec (List.all_eq_true.mp (hc a (List.mem_cons_self ..)).2 _ hm)
    simp at this
  · rw [e]; simp [hjeq]

theorem readBody_ptrace (T : Tables) (q : Q) (accs : List Text) (p : Text) (ha : accs ≠ [])
    (h : ∀ a ∈ accs, CapW a ∧ (reqValues T "ptrace" "access").contains a = true) (hq : q.owner = false) :
    readBody T q [S "ptrace", cjoin accs, S "peer=" ++ p] =
      some (mkR "ptrace" q [.l (sortedBy T "ptrace" "access" accs), .s p]) := by
  have hc := fun a hm => (h a hm).1
  have hmem := eq_not_mem_cjoin accs ha hc
  have hcondW : isCond (cjoin accs) = false := by simp [isCond, hmem]
  have hcondP : isCond (S "peer=" ++ p) = true := by
    simp only [isCond, isPathTok_peer, Bool.not_false, Bool.and_true]
    simp [S]
  have hall : (accs.all fun a => (reqValues T "ptrace" "access").contains a) = true := by
    rw [List.all_eq_true]; intro a hm; exact (h a hm).2
  have h5 : "peer=".length = 5 := by decide
  have hpre1 : (S "peer=").isPrefixOf (S "peer=" ++ p) = true := by
    rw [List.isPrefixOf_iff_prefix]; exact List.prefix_append _ _
  have hpre2 : (S "set=").isPrefixOf (S "peer=" ++ p) = false := by
    show List.isPrefixOf ['s', 'e', 't', '='] ('p' :: ('e' :: 'e' :: 'r' :: '=' :: p)) = false
    simp [List.isPrefixOf]
  have hdrop : (S "peer=" ++ p).drop "peer=".length = p := by
    rw [h5]; rfl
  have hpeer : cond "peer" [S "peer=" ++ p] = some (some p) := by
    simp only [cond, List.filterMap_cons, List.filterMap_nil, stripPrefix, show "peer" ++ "=" = "peer=" from rfl, hpre1,
      if_true, hdrop]
  have hset : cond "set" [S "peer=" ++ p] = some none := by
    simp only [cond, List.filterMap_cons, List.filterMap_nil, stripPrefix, show "set" ++ "=" = "set=" from rfl, hpre2,
      Bool.false_eq_true, if_false]
  unfold readBody
  have k1 : (S "ptrace" == S "capability") = false := by decide
  have k2 : (S "ptrace" == S "network") = false := by decide
  have k3 : (S "ptrace" == S "signal" || S "ptrace" == S "ptrace") = true := by decide
  have k4 : (String.ofList (S "ptrace") == "signal") = false := by decide
  simp only [k1, k2, k3, Bool.false_eq_true, if_false, if_true, hq, hcondW, listOf_cjoin accs ha hc,
    List.all_cons, List.all_nil, hcondP, Bool.and_self, Bool.not_true, hall, hpeer, hset, hpre1, k4, Bool.or_false,
    Bool.false_and, Option.isSome_none, Option.getD_some]
  have k5 : String.ofList (S "ptrace") = "ptrace" := by decide
  rw [k5, hall]
  rfl

/-! ### the whole line -/

theorem ptraceToks_gw (audit deny : Bool) (accs : List Text) (p : Text) (ha : accs ≠ [])
    (h : ∀ a ∈ accs, CapW a) (hp : CapW p) : ∀ t ∈ ptraceToks audit deny accs p, GW t := by
  intro t ht
  simp only [ptraceToks, List.mem_append, List.mem_cons, List.not_mem_nil, or_false] at ht
  rcases ht with ht | rfl | rfl | rfl
  · exact Or.inl (capW_simpleW (qualWords_capW audit deny t ht)).1
  · exact Or.inl ⟨by decide, by decide⟩
  · exact gw_cjoin accs ha h
  · -- `peer=word` is a simple word
    refine Or.inl ⟨by simp [S], ?_⟩
    rw [List.all_append]
    simp only [Bool.and_eq_true]
    exact ⟨by decide, (capW_simpleW hp).1.2⟩

theorem cjoin_last_ne_comma (accs : List Text) (ha : accs ≠ []) (h : ∀ a ∈ accs, CapW a) :
    (cjoin accs).getLast? ≠ some ',' := by
  rcases cjoin_cases accs ha with ⟨a, rfl, e⟩ | ⟨_, e⟩
  · rw [e]; exact (capW_simpleW (h a (List.mem_cons_self ..))).2.2
  · rw [e]
    show ('(' :: (joinB accs ++ [')'])).getLast? ≠ some ','
    rw [List.getLast?_cons]
    simp [List.getLast?_append]

theorem ptraceToks_no_trailing_comma (audit deny : Bool) (accs : List Text) (p : Text) (ha : accs ≠ [])
    (h : ∀ a ∈ accs, CapW a) (hp : CapW p) :
    (ptraceToks audit deny accs p).any (fun w => w.getLast? == some ',') = false := by
  rw [List.any_eq_false]
  intro t ht
  simp only [ptraceToks, List.mem_append, List.mem_cons, List.not_mem_nil, or_false] at ht
  rcases ht with ht | rfl | rfl | rfl
  · simpa using (capW_simpleW (qualWords_capW audit deny t ht)).2.2
  · decide
  · simpa using cjoin_last_ne_comma accs ha h
  · have hne := hp.1
    have : (S "peer=" ++ p).getLast? = p.getLast? := by
      simp [List.getLast?_append, List.getLast?_eq_some_getLast hne]
    rw [this]
    simpa using (capW_simpleW hp).2.2

theorem ptrace_body_no_hash (audit deny : Bool) (accs : List Text) (p : Text) (ha : accs ≠ [])
    (h : ∀ a ∈ accs, CapW a) (hp : CapW p) : '#' ∉ joinB (ptraceToks audit deny accs p) ++ [','] := by
  rw [ptrace_body]
  have hq : '#' ∉ ((qualWords audit deny).map (fun w => w ++ [' '])).flatten ++ S "ptrace " := by
    cases audit <;> cases deny <;> decide
  have hj : '#' ∉ joinB accs := by
    intro hm
    rcases joinB_chars accs h '#' hm with h1 | h1
    · have := capCh_spec h1; simp at this
    · simp at h1
  have hcj : '#' ∉ cjoin accs := by
    rcases cjoin_cases accs ha with ⟨a, rfl, e⟩ | ⟨_, e⟩
    · rw [e]; exact (capW_simpleW (h a (List.mem_cons_self ..))).2.1
    · rw [e]; simp [hj]
  have hpp : '#' ∉ S " peer=" ++ p := by
    intro hm
    rw [List.mem_append] at hm
    rcases hm with hm | hm
    · revert hm; decide
    · exact (capW_simpleW hp).2.1 hm
  intro hm
  simp only [List.mem_append, List.mem_singleton] at hm
  rcases hm with (((hm | hm) | hm) | hm) | hm
  · exact hq (List.mem_append.mpr hm)
  · exact hcj hm
  · exact hpp (List.mem_append_left _ hm)
  · exact hpp (List.mem_append_right _ hm)
  · cases hm

/-- **The reference reader on a printed ptrace rule**: every qualifier, every non-empty access list of the table (bare
or parenthesised), every keyword-like peer word -/
theorem read_ptrace (T : Tables) (audit deny : Bool) (accs : List Text) (p : Text) (ha : accs ≠ [])
    (h : ∀ a ∈ accs, CapW a ∧ (reqValues T "ptrace" "access").contains a = true) (hp : CapW p) :
    read T (renderRule (ptraceRule audit deny accs p) (padOf [])) =
      some (mkR "ptrace" { audit := audit, deny := deny, owner := false } [.l (sortedBy T "ptrace" "access" accs), .s p]) := by
  have hc := fun a hm => (h a hm).1
  rw [render_ptrace audit deny accs p ha hp.1]
  unfold read
  simp only [stripComment_nohash _ (ptrace_body_no_hash audit deny accs p ha hc hp), trimR_comma, List.getLast?_append,
    List.getLast?_singleton, Option.some_or, List.dropLast_concat]
  rw [words_joinG' _ (by simp [ptraceToks]) (ptraceToks_gw audit deny accs p ha hc hp)]
  simp only [ptraceToks_no_trailing_comma audit deny accs p ha hc hp, Bool.false_eq_true, if_false]
  unfold ptraceToks
  rw [readQual_qualWords audit deny (S "ptrace") _ (by decide) (by decide) (by decide) (by decide)]
  simp only
  exact readBody_ptrace T _ accs p ha h rfl

end Ref
