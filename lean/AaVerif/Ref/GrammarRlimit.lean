import AaVerif.Ref.GrammarSignal
import AaVerif.Aa.ParseRlimit
/-!
# Ref.GrammarRlimit — the reference reader on a printed `set rlimit` rule

For every key of the table and every value the reference syntax accepts (`infinity`, or a number with an optional unit).
-/
namespace Ref
open Aa Aa.Parse

/-- the value test of the reference reader, as `readBody` states it -/
def rlimitValueOk (v : Text) : Bool :=
  v == S "infinity" ||
    (!((if v.head? == some '-' then v.drop 1 else v).takeWhile Char.isDigit).isEmpty &&
      ((if v.head? == some '-' then v.drop 1 else v).drop
        ((if v.head? == some '-' then v.drop 1 else v).takeWhile Char.isDigit).length).all Char.isAlpha)

def badCh : List Char := [' ', '\t', '\n', '"', '(', '{', '[', ')', '}', ']', '#', ',', '=']

theorem capCh_of (P : Char → Bool) (hL : badCh.all (fun d => !P d) = true) {c : Char} (h : P c = true) : capCh c = true := by
  cases hc : capCh c with
  | true => rfl
  | false =>
    exfalso
    have hm : c ∈ badCh := by
      simp only [capCh, isOpenB, isCloseB, Bool.not_eq_eq_eq_not, Bool.not_false, Bool.or_eq_true, beq_iff_eq] at hc
      simp only [badCh, List.mem_cons, List.not_mem_nil, or_false]
      rcases hc with ((((((((h | h) | h) | h) | ((h | h) | h)) | ((h | h) | h)) | h) | h) | h) <;> simp [h]
    have := List.all_eq_true.mp hL c hm
    simp [h] at this

theorem capCh_digit {c : Char} (h : c.isDigit = true) : capCh c = true := capCh_of Char.isDigit (by decide) h
theorem capCh_alpha {c : Char} (h : c.isAlpha = true) : capCh c = true := capCh_of Char.isAlpha (by decide) h

theorem numUnit_capW (w : Text) (h1 : (w.takeWhile Char.isDigit).isEmpty = false)
    (h2 : (w.drop (w.takeWhile Char.isDigit).length).all Char.isAlpha = true) : CapW w := by
  constructor
  · intro e; subst e; simp at h1
  · rw [List.all_eq_true]
    intro c hc
    have hp : w.takeWhile Char.isDigit = w.take (w.takeWhile Char.isDigit).length :=
      List.prefix_iff_eq_take.mp (List.takeWhile_prefix _)
    rw [← List.take_append_drop (w.takeWhile Char.isDigit).length w, List.mem_append] at hc
    rcases hc with hc | hc
    · rw [← hp] at hc
      exact capCh_digit (List.all_eq_true.mp List.all_takeWhile c hc)
    · exact capCh_alpha (List.all_eq_true.mp h2 c hc)

/-- a value the reference syntax accepts is a keyword-like word -/
theorem rlimitValueOk_capW (v : Text) (h : rlimitValueOk v = true) : CapW v := by
  unfold rlimitValueOk at h
  rw [Bool.or_eq_true] at h
  rcases h with h | h
  · have : v = S "infinity" := by simpa using h
    subst this; decide
  · rw [Bool.and_eq_true] at h
    obtain ⟨h1, h2⟩ := h
    by_cases hd' : (v.head? == some '-') = true
    · rw [if_pos hd'] at h1 h2
      have hd : v.head? = some '-' := by simpa using hd'
      have hw := numUnit_capW (v.drop 1) (by simpa using h1) h2
      match v, hd with
      | c :: cs, hd =>
        have : c = '-' := by simpa using hd
        subst this
        simp only [List.drop_succ_cons, List.drop_zero] at hw
        exact ⟨by simp, by simp [hw.2]; decide⟩
    · rw [if_neg hd'] at h1 h2
      exact numUnit_capW v (by simpa using h1) h2

theorem readBody_rlimit (T : Tables) (k v : Text) (hk : (reqValues T "rlimit" "keys").contains k = true)
    (hv : rlimitValueOk v = true) :
    readBody T {} [S "set", S "rlimit", k, S "<=", v] = some (mkR "rlimit" {} [.s k, .s (S "<="), .s v]) := by
  unfold readBody
  simp only []
  rw [if_neg (by decide), if_neg (by decide), if_neg (by decide), if_pos (by decide)]
  unfold rlimitValueOk at hv
  simp only [hv, hk]
  simp

theorem read_rlimit (T : Tables) (k v : Text) (hck : CapW k)
    (hk : (reqValues T "rlimit" "keys").contains k = true) (hv : rlimitValueOk v = true) :
    read T (renderRule (rlimitRule k v) (padOf [])) = some (mkR "rlimit" {} [.s k, .s (S "<="), .s v]) := by
  have hcv := rlimitValueOk_capW v hv
  rw [render_rlimit]
  have hws : ∀ w ∈ rlimitToks k v, SimpleW w ∧ '#' ∉ w ∧ w.getLast? ≠ some ',' := by
    intro w hw
    simp only [rlimitToks, List.mem_cons, List.not_mem_nil, or_false] at hw
    rcases hw with rfl | rfl | rfl | rfl | rfl
    · exact ⟨by decide, by decide, by decide⟩
    · exact ⟨by decide, by decide, by decide⟩
    · exact capW_simpleW hck
    · exact ⟨by decide, by decide, by decide⟩
    · exact capW_simpleW hcv
  have hnc : (rlimitToks k v).any (fun w => w.getLast? == some ',') = false := by
    rw [List.any_eq_false]
    intro w hw
    simpa using (hws w hw).2.2
  have hnh : '#' ∉ joinB (rlimitToks k v) ++ [','] := by
    intro hm
    rw [List.mem_append] at hm
    rcases hm with hm | hm
    · have h1 : '#' ∉ k := (capW_simpleW hck).2.1
      have h2 : '#' ∉ v := (capW_simpleW hcv).2.1
      simp [rlimitToks, joinB, S, h1, h2] at hm
    · simp at hm
  unfold read
  simp only [stripComment_nohash _ hnh, trimR_comma, List.getLast?_append, List.getLast?_singleton, Option.some_or,
    List.dropLast_concat]
  rw [words_joinB' _ (by simp [rlimitToks]) (fun w hw => (hws w hw).1)]
  simp only [hnc, Bool.false_eq_true, if_false]
  unfold rlimitToks
  have hq : readQual 5 {} [S "set", S "rlimit", k, S "<=", v] = some ({}, [S "set", S "rlimit", k, S "<=", v]) := by
    rw [readQual]
    rw [if_neg (by decide), if_neg (by decide), if_neg (by decide), if_neg (by decide)]
  rw [hq]
  exact readBody_rlimit T k v hk hv

end Ref
