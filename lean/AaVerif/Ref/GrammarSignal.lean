import AaVerif.Ref.GrammarPtrace
import AaVerif.Aa.ParseSignal
/-!
# Ref.GrammarSignal — the reference reader on printed signal rules, symbolically

`signal (send receive) set=(hup int) peer=foo,`: the condition `set=` carries a parenthesised group as its value; the
reader's word splitter keeps `set=(hup int)` together, `cond` cuts the key off and `listOf` opens the group.
-/
namespace Ref
open Aa Aa.Parse

/-- a word of a printed rule: simple, a group, or a simple prefix followed by a group (`set=(a b)`) -/
def GW2 (w : Text) : Prop :=
  GW w ∨ ∃ pre inner, pre.all simpleCh = true ∧ inner.all innerCh = true ∧ w = pre ++ ('(' :: inner ++ [')'])

theorem gw2_ne_nil {w : Text} (h : GW2 w) : w ≠ [] := by
  rcases h with h | ⟨pre, inner, _, _, rfl⟩
  · exact gw_ne_nil h
  · simp

theorem wordsAux_gw2 (w : Text) (hw : GW2 w) (cur : Text) (acc : List Text) (rest : Text) :
    wordsAux 0 false cur acc (w ++ rest) = wordsAux 0 false (w.reverse ++ cur) acc rest := by
  rcases hw with h | ⟨pre, inner, hp, hi, rfl⟩
  · exact wordsAux_gw w h cur acc rest
  · rw [List.append_assoc, wordsAux_word pre hp]
    have := wordsAux_group inner hi (pre.reverse ++ cur) acc rest
    simp only [List.cons_append, List.append_assoc, List.nil_append] at this ⊢
    rw [this]
    simp

theorem words_joinG2 : ∀ (ws : List Text) (acc : List Text), ws ≠ [] → (∀ w ∈ ws, GW2 w) →
    wordsAux 0 false [] acc (joinB ws) = some (acc.reverse ++ ws)
  | [], _, h, _ => absurd rfl h
  | [a], acc, _, hs => by
    have ha := hs a (by simp)
    have := wordsAux_gw2 a ha [] acc []
    simp only [List.append_nil] at this
    simp only [joinB]
    rw [this]
    rw [wordsAux]
    have hne : a.reverse.isEmpty = false := by
      have := gw2_ne_nil ha
      cases a <;> simp_all
    simp [hne]
  | a :: b :: l, acc, _, hs => by
    have ha := hs a (by simp)
    have := wordsAux_gw2 a ha [] acc (' ' :: joinB (b :: l))
    simp only [joinB]
    rw [this]
    rw [wordsAux]
    simp only [show (' ' == '"') = false from rfl, Bool.false_eq_true, if_false, show (' ' == '(') = false from rfl,
      show (' ' == ')') = false from rfl, beq_self_eq_true, Bool.true_or, Bool.and_self, if_true]
    have hne' : (a.reverse ++ []).isEmpty = false := by
      have := gw2_ne_nil ha
      cases a <;> simp_all
    rw [hne']
    simp only [Bool.false_eq_true, if_false, List.append_nil, List.reverse_reverse]
    rw [words_joinG2 (b :: l) (a :: acc) (by simp) (fun w hw => hs w (by simp [hw]))]
    simp

theorem words_joinG2' (ws : List Text) (h : ws ≠ []) (hs : ∀ w ∈ ws, GW2 w) : words (joinB ws) = some ws := by
  unfold words
  rw [words_joinG2 ws [] h hs]; simp

/-- `set=` followed by the printed signal list -/
theorem gw2_set (set : List Text) (hs : set ≠ []) (h : ∀ a ∈ set, CapW a) : GW2 (S "set=" ++ cjoin set) := by
  rcases cjoin_cases set hs with ⟨a, rfl, e⟩ | ⟨_, e⟩
  · rw [e]
    refine Or.inl (Or.inl ⟨by simp [S], ?_⟩)
    rw [List.all_append]
    simp only [Bool.and_eq_true]
    exact ⟨by decide, (capW_simpleW (h a (List.mem_cons_self ..))).1.2⟩
  · rw [e]
    exact Or.inr ⟨S "set=", joinB set, by decide, joinB_innerCh set h, rfl⟩

theorem isPathTok_set (x : Text) : isPathTok (S "set=" ++ x) = false := by
  show isPathTok ('s' :: ('e' :: 't' :: '=' :: x)) = false
  rfl

theorem readBody_signal (T : Tables) (q : Q) (accs set : List Text) (p : Text) (ha : accs ≠ []) (hs : set ≠ [])
    (h : ∀ a ∈ accs, CapW a ∧ (reqValues T "signal" "access").contains a = true)
    (h' : ∀ a ∈ set, CapW a ∧ (reqValues T "signal" "set").contains a = true) (hq : q.owner = false) :
    readBody T q [S "signal", cjoin accs, S "set=" ++ cjoin set, S "peer=" ++ p] =
      some (mkR "signal" q [.l (sortedBy T "signal" "access" accs), .l (sortedBy T "signal" "set" set), .s p]) := by
  have hc := fun a hm => (h a hm).1
  have hc' := fun a hm => (h' a hm).1
  have hmem := eq_not_mem_cjoin accs ha hc
  have hcondW : isCond (cjoin accs) = false := by simp [isCond, hmem]
  have hcondS : isCond (S "set=" ++ cjoin set) = true := by
    simp only [isCond, isPathTok_set, Bool.not_false, Bool.and_true]
    simp [S]
  have hcondP : isCond (S "peer=" ++ p) = true := by
    simp only [isCond, isPathTok_peer, Bool.not_false, Bool.and_true]
    simp [S]
  have hall : (accs.all fun a => (reqValues T "signal" "access").contains a) = true := by
    rw [List.all_eq_true]; intro a hm; exact (h a hm).2
  have hall' : (set.all fun a => (reqValues T "signal" "set").contains a) = true := by
    rw [List.all_eq_true]; intro a hm; exact (h' a hm).2
  have h5 : "peer=".length = 5 := by decide
  have h4 : "set=".length = 4 := by decide
  have pp : (S "peer=").isPrefixOf (S "peer=" ++ p) = true := by
    rw [List.isPrefixOf_iff_prefix]; exact List.prefix_append _ _
  have ps : (S "set=").isPrefixOf (S "peer=" ++ p) = false := by
    show List.isPrefixOf ['s', 'e', 't', '='] ('p' :: ('e' :: 'e' :: 'r' :: '=' :: p)) = false
    simp [List.isPrefixOf]
  have ss : (S "set=").isPrefixOf (S "set=" ++ cjoin set) = true := by
    rw [List.isPrefixOf_iff_prefix]; exact List.prefix_append _ _
  have sp : (S "peer=").isPrefixOf (S "set=" ++ cjoin set) = false := by
    show List.isPrefixOf ['p', 'e', 'e', 'r', '='] ('s' :: ('e' :: 't' :: '=' :: cjoin set)) = false
    simp [List.isPrefixOf]
  have dp : (S "peer=" ++ p).drop "peer=".length = p := by rw [h5]; rfl
  have ds : (S "set=" ++ cjoin set).drop "set=".length = cjoin set := by rw [h4]; rfl
  have hpeer : cond "peer" [S "set=" ++ cjoin set, S "peer=" ++ p] = some (some p) := by
    simp only [cond, List.filterMap_cons, List.filterMap_nil, stripPrefix, show "peer" ++ "=" = "peer=" from rfl, pp, sp,
      if_true, Bool.false_eq_true, if_false, dp]
  have hset : cond "set" [S "set=" ++ cjoin set, S "peer=" ++ p] = some (some (cjoin set)) := by
    simp only [cond, List.filterMap_cons, List.filterMap_nil, stripPrefix, show "set" ++ "=" = "set=" from rfl, ss, ps,
      if_true, Bool.false_eq_true, if_false, ds]
  unfold readBody
  have k1 : (S "signal" == S "capability") = false := by decide
  have k2 : (S "signal" == S "network") = false := by decide
  have k3 : (S "signal" == S "signal" || S "signal" == S "ptrace") = true := by decide
  have k4 : (String.ofList (S "signal") == "signal") = true := by decide
  have k5 : String.ofList (S "signal") = "signal" := by decide
  simp only [k1, k2, k3, Bool.false_eq_true, if_false, if_true, hq, hcondW, listOf_cjoin accs ha hc,
    List.all_cons, List.all_nil, hcondP, hcondS, Bool.and_self, Bool.not_true, hpeer, hset, pp, ss, sp, ps, k4, Bool.or_false,
    Bool.true_and, Bool.or_true, Option.map_some, Option.getD_some, listOf_cjoin set hs hc']
  rw [k5, hall, hall']
  rfl

/-! ### the whole line -/

theorem signalToks_gw2 (audit deny : Bool) (accs set : List Text) (p : Text) (ha : accs ≠ []) (hs : set ≠ [])
    (h : ∀ a ∈ accs, CapW a) (h' : ∀ a ∈ set, CapW a) (hp : CapW p) : ∀ t ∈ signalToks audit deny accs set p, GW2 t := by
  intro t ht
  simp only [signalToks, List.mem_append, List.mem_cons, List.not_mem_nil, or_false] at ht
  rcases ht with ht | rfl | rfl | rfl | rfl
  · exact Or.inl (Or.inl (capW_simpleW (qualWords_capW audit deny t ht)).1)
  · exact Or.inl (Or.inl ⟨by decide, by decide⟩)
  · exact Or.inl (gw_cjoin accs ha h)
  · exact gw2_set set hs h'
  · refine Or.inl (Or.inl ⟨by simp [S], ?_⟩)
    rw [List.all_append]
    simp only [Bool.and_eq_true]
    exact ⟨by decide, (capW_simpleW hp).1.2⟩

theorem signalToks_no_trailing_comma (audit deny : Bool) (accs set : List Text) (p : Text) (ha : accs ≠ []) (hs : set ≠ [])
    (h : ∀ a ∈ accs, CapW a) (h' : ∀ a ∈ set, CapW a) (hp : CapW p) :
    (signalToks audit deny accs set p).any (fun w => w.getLast? == some ',') = false := by
  rw [List.any_eq_false]
  intro t ht
  simp only [signalToks, List.mem_append, List.mem_cons, List.not_mem_nil, or_false] at ht
  rcases ht with ht | rfl | rfl | rfl | rfl
  · simpa using (capW_simpleW (qualWords_capW audit deny t ht)).2.2
  · decide
  · simpa using cjoin_last_ne_comma accs ha h
  · have hne : cjoin set ≠ [] := gw_ne_nil (gw_cjoin set hs h')
    have : (S "set=" ++ cjoin set).getLast? = (cjoin set).getLast? := by
      simp [List.getLast?_append, List.getLast?_eq_some_getLast hne]
    rw [this]
    simpa using cjoin_last_ne_comma set hs h'
  · have hne := hp.1
    have : (S "peer=" ++ p).getLast? = p.getLast? := by
      simp [List.getLast?_append, List.getLast?_eq_some_getLast hne]
    rw [this]
    simpa using (capW_simpleW hp).2.2

theorem hash_not_mem_cjoin (xs : List Text) (hx : xs ≠ []) (h : ∀ a ∈ xs, CapW a) : '#' ∉ cjoin xs := by
  have hj : '#' ∉ joinB xs := by
    intro hm
    rcases joinB_chars xs h '#' hm with h1 | h1
    · have := capCh_spec h1; simp at this
    · simp at h1
  rcases cjoin_cases xs hx with ⟨a, rfl, e⟩ | ⟨_, e⟩
  · rw [e]; exact (capW_simpleW (h a (List.mem_cons_self ..))).2.1
  · rw [e]; simp [hj]

theorem signal_body_no_hash (audit deny : Bool) (accs set : List Text) (p : Text) (ha : accs ≠ []) (hs : set ≠ [])
    (h : ∀ a ∈ accs, CapW a) (h' : ∀ a ∈ set, CapW a) (hp : CapW p) :
    '#' ∉ joinB (signalToks audit deny accs set p) ++ [','] := by
  rw [signal_body]
  have hq : '#' ∉ ((qualWords audit deny).map (fun w => w ++ [' '])).flatten ++ S "signal " := by
    cases audit <;> cases deny <;> decide
  have h1 := hash_not_mem_cjoin accs ha h
  have h2 := hash_not_mem_cjoin set hs h'
  have h3 : '#' ∉ p := (capW_simpleW hp).2.1
  have h4 : '#' ∉ S " set=" := by decide
  have h5 : '#' ∉ S " peer=" := by decide
  intro hm
  simp only [List.mem_append, List.mem_singleton] at hm
  rcases hm with (hm | hm | hm | hm | hm | hm) | hm
  · exact hq (List.mem_append.mpr hm)
  · exact h1 hm
  · exact h4 hm
  · exact h2 hm
  · exact h5 hm
  · exact h3 hm
  · cases hm

/-- **The reference reader on a printed signal rule**: every qualifier, every non-empty access list and signal list of
the tables (bare or parenthesised), every keyword-like peer word -/
theorem read_signal (T : Tables) (audit deny : Bool) (accs set : List Text) (p : Text) (ha : accs ≠ []) (hs : set ≠ [])
    (h : ∀ a ∈ accs, CapW a ∧ (reqValues T "signal" "access").contains a = true)
    (h' : ∀ a ∈ set, CapW a ∧ (reqValues T "signal" "set").contains a = true) (hp : CapW p) :
    read T (renderRule (signalRule audit deny accs set p) (padOf [])) =
      some (mkR "signal" { audit := audit, deny := deny, owner := false }
        [.l (sortedBy T "signal" "access" accs), .l (sortedBy T "signal" "set" set), .s p]) := by
  have hc := fun a hm => (h a hm).1
  have hc' := fun a hm => (h' a hm).1
  rw [render_signal audit deny accs set p ha hs hp.1]
  unfold read
  simp only [stripComment_nohash _ (signal_body_no_hash audit deny accs set p ha hs hc hc' hp), trimR_comma,
    List.getLast?_append, List.getLast?_singleton, Option.some_or, List.dropLast_concat]
  rw [words_joinG2' _ (by simp [signalToks]) (signalToks_gw2 audit deny accs set p ha hs hc hc' hp)]
  simp only [signalToks_no_trailing_comma audit deny accs set p ha hs hc hc' hp, Bool.false_eq_true, if_false]
  unfold signalToks
  rw [readQual_qualWords audit deny (S "signal") _ (by decide) (by decide) (by decide) (by decide)]
  simp only
  exact readBody_signal T _ accs set p ha hs h h' rfl

end Ref
