/-!
# Rx — regex AST for the RE2 subset used by apparmor.d, leftmost-first backtracking matcher,
and Go's `ReplaceAll` rules for empty matches.

This engine is the *executable bridge* from the regenerated regex sources to the model: it is
differentially tested against Go's `regexp` on every regenerated pattern.  No theorem depends
on it (theorems are stated about specialised scanners); it is `partial` on purpose.
-/
namespace Rx

inductive Cls where
  | any
  | set (neg : Bool) (ranges : List (Char × Char))
deriving Repr, Inhabited

inductive Re where
  | eps
  | chr (c : Char)
  | cls (k : Cls)
  | seq (a b : Re)
  | alt (a b : Re)
  | star (a : Re) (greedy : Bool)
  | plus (a : Re) (greedy : Bool)
  | opt (a : Re) (greedy : Bool)
  | bol | eol
  | grp (a : Re)
deriving Repr, Inhabited

structure Flags where
  multiline : Bool := false
  dotAll : Bool := false
deriving Repr, Inhabited

def Cls.matches (f : Flags) : Cls → Char → Bool
  | .any, c => f.dotAll || c != '\n'
  | .set neg rs, c =>
    let hit := rs.any (fun (lo, hi) => lo.toNat ≤ c.toNat && c.toNat ≤ hi.toNat)
    if neg then !hit else hit

/-- single-character sub-expression (so that `x*` can be iterated instead of recursed) -/
def Re.single? : Re → Option Cls
  | .chr c => some (.set false [(c, c)])
  | .cls k => some k
  | .grp a => a.single?
  | _ => none

/-- Continuation-passing backtracking matcher; `k` receives the end of the sub-match. -/
partial def m (f : Flags) (s : Array Char) : Re → Nat → (Nat → Option Nat) → Option Nat
  | .eps, i, k => k i
  | .chr c, i, k => if h : i < s.size then (if s[i] == c then k (i+1) else none) else none
  | .cls cl, i, k => if h : i < s.size then (if cl.matches f s[i] then k (i+1) else none) else none
  | .seq a b, i, k => m f s a i (fun j => m f s b j k)
  | .alt a b, i, k => match m f s a i k with
    | some r => some r
    | none => m f s b i k
  | .grp a, i, k => m f s a i k
  | .opt a true, i, k => match m f s a i k with
    | some r => some r
    | none => k i
  | .opt a false, i, k => match k i with
    | some r => some r
    | none => m f s a i k
  | .star a true, i, k =>
    match a.single? with
    | some cl =>
      -- greedy run of single characters: find the maximal run, then back off
      let rec run (j : Nat) : Nat := if h : j < s.size then (if cl.matches f s[j] then run (j+1) else j) else j
      let e := run i
      let rec back (j : Nat) : Option Nat :=
        match k j with
        | some r => some r
        | none => if j > i then back (j - 1) else none
      back e
    | none =>
      match m f s a i (fun j => if j > i then m f s (.star a true) j k else none) with
      | some r => some r
      | none => k i
  | .star a false, i, k =>
    match k i with
    | some r => some r
    | none => m f s a i (fun j => if j > i then m f s (.star a false) j k else none)
  | .plus a g, i, k => m f s a i (fun j => m f s (.star a g) j k)
  | .bol, i, k =>
    if i == 0 || (f.multiline && s[i-1]! == '\n') then k i else none
  | .eol, i, k =>
    if i == s.size || (f.multiline && s[i]! == '\n') then k i else none

def matchAt (f : Flags) (re : Re) (s : Array Char) (i : Nat) : Option Nat := m f s re i some

/-- how a pattern starts: with a greedy `.*` (then a failed attempt at `i` rules out every later
start on the same line), with `^`, or otherwise -/
inductive Lead where | dotStar | bol | other

def Re.lead : Re → Lead
  | .seq a _ => a.lead
  | .grp a => a.lead
  | .star (.cls .any) true => .dotStar
  | .bol => .bol
  | _ => .other

def nextLine (s : Array Char) (i : Nat) : Nat := Id.run do
  let mut j := i
  while j < s.size && s[j]! != '\n' do
    j := j + 1
  return j + 1

/-- leftmost match starting at or after `i` -/
partial def find (f : Flags) (re : Re) (s : Array Char) (i : Nat) : Option (Nat × Nat) :=
  if i > s.size then none else
  match matchAt f re s i with
  | some e => some (i, e)
  | none =>
    match re.lead with
    | .dotStar => if f.dotAll then none else find f re s (nextLine s i)
    | .bol => if f.multiline then find f re s (nextLine s i) else none
    | .other => find f re s (i+1)

def isMatch (f : Flags) (re : Re) (s : List Char) : Bool := (find f re s.toArray 0).isSome

/-- all non-overlapping matches, Go rules for empty matches -/
partial def findAll (f : Flags) (re : Re) (s : Array Char) : List (Nat × Nat) := Id.run do
  let mut out : Array (Nat × Nat) := #[]
  let mut pos := 0
  let mut lastEnd : Option Nat := none
  let mut fuel := s.size + 2
  while fuel > 0 do
    fuel := fuel - 1
    match find f re s pos with
    | none => break
    | some (b, e) =>
      if e == b && lastEnd == some b then
        if b < s.size then pos := b + 1 else break
      else
        out := out.push (b, e)
        lastEnd := some e
        if e > b then pos := e
        else if b < s.size then pos := b + 1
        else break
      if pos > s.size then break
  return out.toList

/-- `ReplaceAllLiteralString` -/
def replaceAll (f : Flags) (re : Re) (repl : List Char) (str : List Char) : List Char := Id.run do
  let s := str.toArray
  let ms := findAll f re s
  let mut out : Array Char := #[]
  let mut last := 0
  for (b, e) in ms do
    out := out ++ s.extract last b ++ repl.toArray
    last := e
  out := out ++ s.extract last s.size
  return out.toList

/-- a `RegexReplList` -/
abbrev ReplList := List (Flags × Re × String)

def ReplList.replace (l : ReplList) (s : List Char) : List Char :=
  l.foldl (fun s (f, re, r) => replaceAll f re r.toList s) s

end Rx
