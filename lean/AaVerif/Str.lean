set_option linter.unusedSectionVars false
/-!
# Str — leftmost non-overlapping replacement over `List α`

Model of Go's `regexp.ReplaceAllLiteralString` / `strings.ReplaceAll` for matchers that
never match the empty string.  A *matcher* looks at the remaining input and, when it
matches at the head, returns the match length minus one.  Core Lean only.

Main results
* `no_occ`      : (L1+L2) if the forbidden word `q` cannot be laid over a copy of the
                  replacement `r` (`NoOverlap q r`) and the matcher fires wherever `q` is a
                  prefix of a suffix of the input, then `q` does not occur in the output.
* `no_new_occ`  : (L2) for *any* matcher, a word absent from the input and not overlapping
                  `r` is absent from the output.
* `killed_sound`: a decidable certificate over a chain of literal-alternative steps.
-/
namespace Str

variable {α : Type} [DecidableEq α]

/-- A matcher: `m t = some n` means "a match of length `n+1` starts at the head of `t`". -/
abbrev Matcher (α : Type) := List α → Option Nat

/-- Leftmost, non-overlapping replacement with explicit fuel (structural, so that the kernel
can evaluate it on concrete texts). -/
def replaceAux (m : Matcher α) (r : List α) : Nat → List α → List α
  | 0, _ => []
  | _ + 1, [] => []
  | f + 1, c :: cs =>
    match m (c :: cs) with
    | some n => r ++ replaceAux m r f (cs.drop n)
    | none => c :: replaceAux m r f cs

/-- Leftmost, non-overlapping replacement of every match by the constant `r`. -/
def replaceAllWith (m : Matcher α) (r : List α) (t : List α) : List α :=
  replaceAux m r t.length t

omit [DecidableEq α] in
theorem replaceAux_fuel (m : Matcher α) (r : List α) :
    ∀ (f : Nat) (t : List α), t.length ≤ f → replaceAux m r f t = replaceAux m r t.length t := by
  intro f
  induction f using Nat.strongRecOn with
  | _ f ih =>
    intro t h
    cases f with
    | zero => have : t = [] := List.length_eq_zero_iff.mp (by omega); subst this; rfl
    | succ f =>
      cases t with
      | nil => rfl
      | cons c cs =>
        simp only [List.length_cons, replaceAux]
        have h1 : cs.length ≤ f := by simp at h; omega
        have h3 : ∀ n, (cs.drop n).length ≤ cs.length := fun n => by
          have := List.length_drop (i := n) (l := cs); omega
        cases m (c :: cs) with
        | none => simp only; rw [ih f (by omega) cs h1]
        | some n =>
          simp only
          rw [ih f (by omega) _ (by have := h3 n; omega)]
          by_cases hc : cs.length = f + 1
          · omega
          · rw [ih cs.length (by omega) _ (h3 n)]

/-- Matcher for a priority list of non-empty literal alternatives (`r(PU|U)x,`). -/
def matchAlts (ps : List (List α)) : Matcher α := fun t =>
  match ps.find? (fun p => p.isPrefixOf t && !p.isEmpty) with
  | some p => some (p.length - 1)
  | none => none

/-- `a` and `b` agree on their common length. -/
def Compat (a b : List α) : Prop := a <+: b ∨ b <+: a

instance (a b : List α) : Decidable (Compat a b) := by unfold Compat; infer_instance

/-- `q` cannot be laid over a copy of `r` at any offset with the overlapping part agreeing. -/
def NoOverlap (q r : List α) : Prop :=
  (∀ k, k < r.length → ¬ Compat q (r.drop k)) ∧
  (∀ a, 0 < a → a < q.length → ¬ Compat (q.drop a) r)

def noOverlapB (q r : List α) : Bool :=
  (List.range r.length).all (fun k => !(decide (Compat q (r.drop k)))) &&
  (List.range q.length).all (fun a => a == 0 || !(decide (Compat (q.drop a) r)))

theorem noOverlapB_sound {q r : List α} (h : noOverlapB q r = true) : NoOverlap q r := by
  unfold noOverlapB at h
  simp only [Bool.and_eq_true, List.all_eq_true, List.mem_range, Bool.not_eq_true',
    decide_eq_false_iff_not, Bool.or_eq_true, beq_iff_eq] at h
  refine ⟨fun k hk => h.1 k hk, fun a ha hq => ?_⟩
  rcases h.2 a hq with h0 | h1
  · omega
  · exact h1

theorem compat_of_prefix_append {q x y : List α} (h : q <+: x ++ y) : Compat q x :=
  List.prefix_or_prefix_of_prefix h (List.prefix_append x y)

/-- an occurrence in `x ++ y` starts inside `x` or lies in `y` -/
theorem infix_append_cases {p : List α} : ∀ (x y : List α), p <:+: x ++ y →
    (∃ k, k < x.length ∧ p <+: x.drop k ++ y) ∨ p <:+: y
  | [], y, h => Or.inr (by simpa using h)
  | a :: x, y, h => by
    rw [List.cons_append, List.infix_cons_iff] at h
    rcases h with h | h
    · exact Or.inl ⟨0, by simp, by simpa using h⟩
    · rcases infix_append_cases x y h with ⟨k, hk, hp⟩ | h'
      · exact Or.inl ⟨k + 1, by simp; omega, by simpa using hp⟩
      · exact Or.inr h'

omit [DecidableEq α] in
theorem replaceAllWith_nil (m : Matcher α) (r : List α) : replaceAllWith m r [] = [] := rfl

omit [DecidableEq α] in
theorem replaceAllWith_cons_some {m : Matcher α} {r : List α} {c : α} {cs : List α} {n : Nat}
    (h : m (c :: cs) = some n) :
    replaceAllWith m r (c :: cs) = r ++ replaceAllWith m r (cs.drop n) := by
  have hl : (cs.drop n).length ≤ cs.length := by
    have := List.length_drop (i := n) (l := cs); omega
  simp only [replaceAllWith, List.length_cons, replaceAux, h]
  rw [replaceAux_fuel m r _ _ hl]

omit [DecidableEq α] in
theorem replaceAllWith_cons_none {m : Matcher α} {r : List α} {c : α} {cs : List α}
    (h : m (c :: cs) = none) :
    replaceAllWith m r (c :: cs) = c :: replaceAllWith m r cs := by
  simp only [replaceAllWith, List.length_cons, replaceAux, h]

/-- Lemma B: a prefix of the output either is a prefix of the input, or runs into a
replacement that starts at a position where the matcher fires. -/
theorem prefix_out (m : Matcher α) (r : List α) : ∀ (t q : List α), q <+: replaceAllWith m r t →
    q <+: t ∨ ∃ u v, q = u ++ v ∧ v ≠ [] ∧ u <+: t ∧ (m (t.drop u.length)).isSome ∧ Compat v r := by
  intro t
  induction h : t.length using Nat.strongRecOn generalizing t with
  | _ n ih =>
    intro q hq
    cases t with
    | nil =>
      rw [replaceAllWith_nil] at hq
      exact Or.inl hq
    | cons c cs =>
      cases hm : m (c :: cs) with
      | some k =>
        rw [replaceAllWith_cons_some hm] at hq
        by_cases hq0 : q = []
        · subst hq0; exact Or.inl (List.nil_prefix)
        · exact Or.inr ⟨[], q, by simp, hq0, List.nil_prefix, by simp [hm],
            compat_of_prefix_append hq⟩
      | none =>
        rw [replaceAllWith_cons_none hm] at hq
        cases q with
        | nil => exact Or.inl List.nil_prefix
        | cons d q' =>
          have hd : d = c ∧ q' <+: replaceAllWith m r cs := by
            simpa [List.cons_prefix_cons] using hq
          obtain ⟨rfl, hq'⟩ := hd
          rcases ih cs.length (by simp at h; omega) cs rfl q' hq' with
            h1 | ⟨u, v, e, hv, hu, hmm, hc⟩
          · exact Or.inl (by simpa [List.cons_prefix_cons] using h1)
          · exact Or.inr ⟨d :: u, v, by simp [e], hv,
              by simpa [List.cons_prefix_cons] using hu, by simpa using hmm, hc⟩

/-- **L1+L2.**  If `q` cannot overlap a copy of `r`, and the matcher fires at every suffix of
the input that starts with `q`, then `q` does not occur in the output. -/
theorem no_occ (m : Matcher α) (q r : List α) (hne : q ≠ []) (hno : NoOverlap q r) :
    ∀ t, (∀ s, s <:+ t → q <+: s → (m s).isSome) → ¬ q <:+: replaceAllWith m r t := by
  intro t
  induction h : t.length using Nat.strongRecOn generalizing t with
  | _ n ih =>
    intro hfire
    cases t with
    | nil =>
      rw [replaceAllWith_nil]
      intro hp
      exact hne (by simpa using hp)
    | cons c cs =>
      cases hm : m (c :: cs) with
      | some k =>
        rw [replaceAllWith_cons_some hm]
        intro hp
        have hlen : (cs.drop k).length < n := by
          have := List.length_drop (i := k) (l := cs); simp at h; omega
        have hsuf : cs.drop k <:+ c :: cs :=
          List.IsSuffix.trans (List.drop_suffix k cs) (List.suffix_cons c cs)
        rcases infix_append_cases r _ hp with ⟨j, hj, hpj⟩ | hp'
        · exact hno.1 j hj (compat_of_prefix_append hpj)
        · exact ih _ hlen _ rfl (fun s hs => hfire s (List.IsSuffix.trans hs hsuf)) hp'
      | none =>
        rw [replaceAllWith_cons_none hm]
        intro hp
        rw [List.infix_cons_iff] at hp
        rcases hp with hp | hp
        · rcases prefix_out m r (c :: cs) q (by rw [replaceAllWith_cons_none hm]; exact hp) with
            h1 | ⟨u, v, e, hv, hu, hmm, hc⟩
          · have := hfire (c :: cs) (List.suffix_refl _) h1
            simp [hm] at this
          · have hu0 : u ≠ [] := by
              intro hu0; subst hu0; simp [hm] at hmm
            have hlu : 0 < u.length := List.length_pos_iff.mpr hu0
            have hlv : 0 < v.length := List.length_pos_iff.mpr hv
            have hpl : u.length < q.length := by rw [e]; simp; omega
            have hdrop : q.drop u.length = v := by rw [e]; simp
            exact hno.2 u.length hlu hpl (by rw [hdrop]; exact hc)
        · exact ih cs.length (by simp at h; omega) cs rfl
            (fun s hs => hfire s (List.IsSuffix.trans hs (List.suffix_cons c cs))) hp

/-- **L2.** A word that does not occur in the input and cannot overlap `r` does not occur in
the output — for *any* matcher. -/
theorem no_new_occ (m : Matcher α) (q r : List α) (hne : q ≠ []) (hno : NoOverlap q r)
    (t : List α) (hq : ¬ q <:+: t) : ¬ q <:+: replaceAllWith m r t := by
  apply no_occ m q r hne hno t
  intro s hs hp
  exact absurd (List.IsInfix.trans hp.isInfix hs.isInfix) hq

theorem matchAlts_fires {ps : List (List α)} {p q s : List α}
    (hp : p ∈ ps) (hpne : p ≠ []) (hpq : p <+: q) (hqs : q <+: s) :
    (matchAlts ps s).isSome := by
  unfold matchAlts
  have hps : p <+: s := List.IsPrefix.trans hpq hqs
  cases hf : ps.find? (fun p => p.isPrefixOf s && !p.isEmpty) with
  | some x => simp
  | none =>
    rw [List.find?_eq_none] at hf
    have := hf p hp
    simp [List.isPrefixOf_iff_prefix, hps] at this
    exact absurd this hpne

/-! ## Chains of steps whose patterns are alternatives of literal / `.` characters -/

/-- pattern character: a literal, or `.` (any character but newline) -/
inductive PC where
  | lit (c : Char)
  | dot
deriving Repr, DecidableEq, Inhabited

def PC.matches : PC → Char → Bool
  | .lit c, d => c == d
  | .dot, d => d != '\n'

/-- the pattern matches a prefix of `t` -/
def patPrefix : List PC → List Char → Bool
  | [], _ => true
  | _ :: _, [] => false
  | p :: ps, c :: cs => p.matches c && patPrefix ps cs

def litPat (s : List Char) : List PC := s.map PC.lit

theorem patPrefix_lit : ∀ (s t : List Char), patPrefix (litPat s) t = s.isPrefixOf t
  | [], t => by simp [litPat, patPrefix]
  | _ :: _, [] => by simp [litPat, patPrefix]
  | a :: s, c :: t => by
    have := patPrefix_lit s t
    simp only [litPat] at this
    simp [litPat, patPrefix, PC.matches, this, List.isPrefixOf]

/-- matcher for a priority list of non-empty alternatives -/
def matchPats (ps : List (List PC)) : Matcher Char := fun t =>
  match ps.find? (fun p => patPrefix p t && !p.isEmpty) with
  | some p => some (p.length - 1)
  | none => none

theorem matchPats_fires {ps : List (List PC)} {p q s : List Char}
    (hp : litPat p ∈ ps) (hpne : p ≠ []) (hpq : p <+: q) (hqs : q <+: s) :
    (matchPats ps s).isSome := by
  unfold matchPats
  have hps : p <+: s := List.IsPrefix.trans hpq hqs
  cases hf : ps.find? (fun p => patPrefix p s && !p.isEmpty) with
  | some x => simp
  | none =>
    rw [List.find?_eq_none] at hf
    have := hf (litPat p) hp
    rw [patPrefix_lit] at this
    simp [List.isPrefixOf_iff_prefix, hps, litPat] at this
    exact absurd this hpne

/-- one step of a `RegexReplList` whose pattern expands to alternatives -/
structure Step where
  alts : List (List PC)
  repl : List Char
deriving Repr

def Step.run (s : Step) (t : List Char) : List Char := replaceAllWith (matchPats s.alts) s.repl t

def runSteps (steps : List Step) (t : List Char) : List Char := steps.foldl (fun t s => s.run t) t

/-- `s` removes every occurrence of `q`: some all-literal alternative is a non-empty prefix
of `q`, and `q` cannot overlap the replacement. -/
def killsB (s : Step) (q : List Char) : Bool :=
  ((List.range (q.length + 1)).any
    (fun n => !(q.take n).isEmpty && s.alts.contains (litPat (q.take n)))) &&
    noOverlapB q s.repl && !q.isEmpty

/-- no later step can re-create `q` -/
def keepsOutB (post : List Step) (q : List Char) : Bool :=
  post.all (fun s => noOverlapB q s.repl)

theorem step_kills {s : Step} {q : List Char} (h : killsB s q = true) (t : List Char) :
    ¬ q <:+: s.run t := by
  unfold killsB at h
  simp only [Bool.and_eq_true, List.any_eq_true, Bool.not_eq_true', List.isEmpty_eq_false_iff,
    List.contains_iff_mem] at h
  obtain ⟨⟨⟨n, _, hpne, hp⟩, hno⟩, hqne⟩ := h
  apply no_occ _ q s.repl hqne (noOverlapB_sound hno) t
  intro x _ hqx
  exact matchPats_fires hp hpne (List.take_prefix n q) hqx

theorem steps_keep_out {post : List Step} {q : List Char} (hne : q ≠ [])
    (h : keepsOutB post q = true) : ∀ t, ¬ q <:+: t → ¬ q <:+: runSteps post t := by
  induction post with
  | nil => intro t ht; simpa [runSteps] using ht
  | cons s post ih =>
    intro t ht
    unfold keepsOutB at h
    simp only [List.all_cons, Bool.and_eq_true] at h
    have h1 : ¬ q <:+: s.run t := no_new_occ _ q s.repl hne (noOverlapB_sound h.1) t ht
    have := ih (by unfold keepsOutB; exact h.2) (s.run t) h1
    simpa [runSteps] using this

/-- Certificate: split the chain at a killing step for some infix `q'` of `q`. -/
def killedAtB (steps : List Step) (q q' : List Char) (i : Nat) : Bool :=
  decide (q' <:+: q) &&
  match steps.drop i with
  | [] => false
  | s :: post => killsB s q' && keepsOutB post q'

theorem killed_sound {steps : List Step} {q q' : List Char} {i : Nat}
    (h : killedAtB steps q q' i = true) (t : List Char) : ¬ q <:+: runSteps steps t := by
  unfold killedAtB at h
  simp only [Bool.and_eq_true, decide_eq_true_eq] at h
  obtain ⟨hinf, h2⟩ := h
  cases hd : steps.drop i with
  | nil => simp [hd] at h2
  | cons s post =>
    simp only [hd, Bool.and_eq_true] at h2
    have hsplit : steps = steps.take i ++ s :: post := by
      rw [← hd]; exact (List.take_append_drop i steps).symm
    have hq'ne : q' ≠ [] := by
      have := h2.1; unfold killsB at this
      simp only [Bool.and_eq_true, Bool.not_eq_true', List.isEmpty_eq_false_iff] at this
      exact this.2
    intro hocc
    have hrun : ∀ pre : List Step,
        runSteps (pre ++ s :: post) t = runSteps post (s.run (runSteps pre t)) := by
      intro pre; simp [runSteps, List.foldl_append]
    rw [hsplit, hrun] at hocc
    exact steps_keep_out hq'ne h2.2 _ (step_kills h2.1 _) (List.IsInfix.trans hinf hocc)

/-- all infixes of `q` (used to search for a certificate) -/
def infixes (q : List Char) : List (List Char) :=
  (List.range (q.length + 1)).flatMap
    (fun a => (List.range (q.length + 1)).map (fun n => (q.drop a).take n))

/-- searchable certificate: some infix of `q` is killed at some step and kept out afterwards -/
def killedB (steps : List Step) (q : List Char) : Bool :=
  (infixes q).any (fun q' => (List.range steps.length).any (fun i => killedAtB steps q q' i))

theorem killedB_sound {steps : List Step} {q : List Char} (h : killedB steps q = true)
    (t : List Char) : ¬ q <:+: runSteps steps t := by
  unfold killedB at h
  simp only [List.any_eq_true] at h
  obtain ⟨q', _, i, _, hk⟩ := h
  exact killed_sound hk t

end Str
