import AaVerif.Proto
import AaVerif.Generated.Chains
import AaVerif.Flags
import AaVerif.Filter
import AaVerif.FilterLemmas
import AaVerif.FilterPara
import AaVerif.Generated.Dists
import AaVerif.Generated.AaTables
import AaVerif.Aa.Order
import AaVerif.Logs
import AaVerif.Layout
import AaVerif.Prep
import AaVerif.Directive
import AaVerif.Props.C08
import AaVerif.Aa.Resolve
import AaVerif.Aa.FromLog
import AaVerif.Generated.LogRx
import AaVerif.Aa.Parse
import AaVerif.Ref.Grammar
open Proto

/-- model of a builder by name, when it is one of the literal replace lists -/
def builderModel (name : String) : Option (List Char → List Char) :=
  match name with
  | "hotfix" => some (Str.runSteps Generated.hotfix)
  | "fsp" => some (Str.runSteps Generated.fsp)
  | "abi3" => some (Str.runSteps Generated.abi3)
  | "complain" => some Flags.complain
  | "enforce" => some Flags.enforce
  | _ => none

def suiteBuilder (f : List String) : String :=
  match f with
  | [names, _file, text] =>
    let rec go (ns : List (List Char)) (t : List Char) : Option (List Char) :=
      match ns with
      | [] => some t
      | n :: ns => match builderModel (String.ofList n) with
        | some b => go ns (b t)
        | none => none
    match go (unescList names) (unesc text) with
    | some t => "ok\t" ++ esc t
    | none => "err\tunknown-builder"
  | _ => "err\tbad-op"

/-- `Flagger.Read` on one manifest line + `SetFlags.Apply` on the text of profile `p` -/
def suiteSetflags (f : List String) : String :=
  match f with
  | [line, text] =>
    let line := unesc line
    let t := unesc text
    -- util.Filter drops comments and blank lines; the generator never sends those
    let parts := splitOnChar ' ' line
    let name := parts.headD []
    if name != ['p'] then "ok\t" ++ esc t ++ "\t1" else
    let flags := match parts.drop 1 with
      | [] => []
      | x :: _ => Flags.splitComma x
    if flags.isEmpty then "ok\t" ++ esc t ++ "\t0"
    else "ok\t" ++ esc (Flags.setFlags flags t) ++ "\t0"
  | _ => "err\tbad-op"

def mkTarget (dist abi ver : String) : Filter.Target :=
  let fam := match Generated.families.find? (fun f => f.2.contains dist) with
    | some f => f.1
    | none => ""
  { dist := dist.toList, family := fam.toList, abi := ("abi" ++ abi).toList,
    version := ("apparmor" ++ ver).toList }

def suiteFilter (f : List String) : String :=
  match f with
  | [dist, abi, ver, text] =>
    match Filter.model (mkTarget (String.ofList (unesc dist)) abi ver) (unesc text) with
    | some t => "ok\t" ++ esc t
    | none => "unmodelled"
  | _ => "err\tbad-op"

/-- the specification and the well-formedness predicate on the same op -/
def suiteFilterSpec (f : List String) : String :=
  match f with
  | [dist, abi, ver, text] =>
    let t := unesc text
    b2s (Filter.wf t) ++ "\t" ++ esc (Filter.specText (mkTarget (String.ofList (unesc dist)) abi ver) t)
      ++ "\t" ++ b2s (Filter.wfInlineSpec (Lines.splitNl t)) ++ "\t" ++ b2s (Filter.wfText t)
  | _ => "err\tbad-op"

def T := Generated.aaTables

def suiteCompare (f : List String) : String :=
  match f with
  | [a, b] => match Aa.decodeRule a, Aa.decodeRule b with
    | some x, some y => "ok\t" ++ toString (Aa.compareRule T x y)
    | _, _ => "err"
  | _ => "err\tbad-op"

def suiteMerge (f : List String) : String :=
  "ok\t" ++ Aa.encodeRules (Aa.mergeRules T ((f.filter (· != "")).map Aa.decodeRule))

/-- reply: the reference sort, then whether the sort comparator has a tie between two different rules -/
def suiteSort (f : List String) : String :=
  let rs := (f.filter (· != "")).filterMap Aa.decodeRule
  "ok\t" ++ Aa.encodeRules ((Aa.sortRules T rs).map some)

/-- reply: per rule, whether it lies in the domain of the C10 meaning theorem (`Aa.Dom10`) -/
def suiteDom10 (f : List String) : String :=
  let rs := (f.filter (· != "")).map Aa.decodeRule
  "ok\t" ++ String.intercalate ";" (rs.map (fun o => match o with
    | none => "n"
    | some r => if decide (Aa.Dom10 T.stringAlphabet r) then "1" else "0"))

/-- reply: per rule, its place in the domain of the C11 sort theorem (`Aa.DomS`): `x` for both values of the
prefix flag (not a file rule), `t` / `f` for a file rule with / without a known prefix, `0` outside -/
def suiteDomS (f : List String) : String :=
  let rs := (f.filter (· != "")).filterMap Aa.decodeRule
  "ok\t" ++ String.intercalate ";" (rs.map (fun r =>
    let t := decide (Aa.DomS T true r)
    let e := decide (Aa.DomS T false r)
    if t && e then "x" else if t then "t" else if e then "f" else "0"))

def suiteMergeValues (f : List String) : String :=
  match f with
  | [kind, key, a, b] => "ok\t" ++ escList (Aa.mergeValues T kind key (unescList a) (unescList b))
  | [kind, key, a] => "ok\t" ++ escList (Aa.mergeValues T kind key (unescList a) [])
  | [kind, key] => "ok\t" ++ escList (Aa.mergeValues T kind key [] [])
  | _ => "err\tbad-op"

def suiteCmpStr (f : List String) : String :=
  match f with
  | [a, b] => "ok\t" ++ toString (Aa.cmpStr T.stringAlphabet (unesc a) (unesc b))
  | [a] => "ok\t" ++ toString (Aa.cmpStr T.stringAlphabet (unesc a) [])
  | [] => "ok\t0"
  | _ => "err\tbad-op"

def rxOfLit (s : List Char) : Rx.Re :=
  s.foldr (fun c acc => .seq (if c == '.' then .cls .any else .chr c) acc) .eps

/-- `isAppArmorLog` for a plain filter (letters, digits, `_ - / .`); other filters are not modelled -/
def isLogRx (filter : List Char) : Option (List Char → Bool) :=
  let tmpl := match Generated.isAppArmorLog with
    | (f, re, _) :: _ => (f, re)
    | [] => (({} : Rx.Flags), Rx.Re.eps)
  if filter.isEmpty then some (fun l => Rx.isMatch tmpl.1 tmpl.2 l)
  else if filter.all (fun c => c.isAlphanum || c == '_' || c == '-' || c == '/' || c == '.') then
    let anyS := Rx.Re.star (.cls .any) true
    let p := rxOfLit filter
    let q := Rx.Re.chr '"'
    let branch (k : String) := Rx.Re.seq (rxOfLit (k.toList ++ ['=', '"'])) (.seq p (.seq anyS q))
    let re := Rx.Re.seq tmpl.2 (.seq anyS (.seq (.chr ' ') (.alt (branch "profile") (branch "label"))))
    some (fun l => Rx.isMatch {} re l)
  else none

def cleanLine (l : List Char) : List Char := Rx.ReplList.replace Generated.cleanLogs (Logs.decodeHex l)

def suiteGetLogs (f : List String) : String :=
  match f with
  | [filter, text] =>
    match isLogRx (unesc filter) with
    | some isLog => "ok\t" ++ escList (Logs.getLogs (fun l => isLog (Logs.decodeHex l)) cleanLine (Logs.scanLines (unesc text)))
    | none => "unmodelled"
  | [filter] =>
    match isLogRx (unesc filter) with
    | some isLog => "ok\t" ++ escList (Logs.getLogs isLog cleanLine (Logs.scanLines []))
    | none => "unmodelled"
  | _ => "err\tbad-op"

def resolveV (v : List Char) : List Char := Rx.ReplList.replace Generated.resolveLogs v

def encLog (l : List (List Char × List Char)) : String :=
  let sorted := l.toArray.qsort (fun a b => a.1 < b.1) |>.toList
  String.intercalate ";" (sorted.map (fun (k, v) => esc k ++ "=" ++ esc v))

def suiteLogNew (f : List String) : String :=
  let text := match f with | [t] => unesc t | _ => []
  match isLogRx [] with
  | none => "err"
  | some isLog =>
    let lines := Logs.getLogs (fun l => isLog (Logs.decodeHex l)) cleanLine (Logs.scanLines text)
    let (q, recs) := lines.foldl (fun (st : Bool × List String) l =>
      let (q, r) := Logs.parseRecord resolveV l
      (q, st.2 ++ [encLog r])) (false, [])
    "ok\t" ++ String.intercalate "|" recs ++ "\t" ++ b2s q

def suiteRx (f : List String) : String :=
  match f with
  | [name, text] =>
    let t := unesc text
    match name with
    | "cleanlogs" => "ok\t" ++ esc (Rx.ReplList.replace Generated.cleanLogs t)
    | "resolvelogs" => "ok\t" ++ esc (resolveV t)
    | "filter" => "ok\t" ++ esc (Rx.ReplList.replace Generated.utilFilter t)
    | "decodehex" => "ok\t" ++ esc (Logs.decodeHex t)
    | _ => "err"
  | [name] => suiteRx' name
  | _ => "err\tbad-op"
where suiteRx' (name : String) : String :=
  match name with
  | "cleanlogs" | "resolvelogs" | "filter" | "decodehex" => "ok\t"
  | _ => "err"

/-- layout <kind> <file base name or relative abstraction path> <text> -> ok <failing parts> -/
def suiteLayout (f : List String) : String :=
  match f with
  | [kind, name, text] =>
    let ls := Lines.splitNl (unesc text)
    if kind == "profile" then
      let n := Layout.stripSuffix (unesc name)
      "ok\t" ++ String.intercalate "," (Layout.report n ls) ++ "\t" ++ b2s (Layout.ok n ls) ++ "\t" ++
        b2s (ls.any (fun l => Layout.startsWithWord (Layout.headerPrefix n) l && Flags.endsBrace l))
    else "ok\t" ++ (if Layout.absOk (unesc name) ls then "" else "abstraction-include") ++ "\t" ++ b2s (Layout.absOk (unesc name) ls) ++ "\t1"
  | _ => "err\tbad-op"

/-- uniq <names;...> -> ok <duplicated names> -/
def suiteUniq (f : List String) : String :=
  let names := match f with | [l] => unescList l | _ => []
  let dups := names.filter (fun n => names.count n > 1)
  "ok\t" ++ escList dups.eraseDups ++ "\t" ++ b2s (decide names.Nodup)

def suiteResolve (f : List String) : String :=
  match f with
  | att :: rules =>
    let pre := (rules.filter (· != "")).filterMap Aa.decodeRule
    match Aa.resolve 200 pre (unescList att) with
    | .ok (pre', att') => "ok\t" ++ escList att' ++ "\t" ++ esc (Aa.getAttachments att') ++ "\t" ++ Aa.encodeRules (pre'.map some)
    | .error .outOfFuel => "fuel"
    | .error _ => "err"
  | _ => "err\tbad-op"

def decListing (s : String) : Prep.Listing :=
  (unescList s).map (fun kv =>
    let str := String.ofList kv
    match str.splitOn "=" with
    | [p, v] => (Prep.splitPath p, v)
    | p :: rest => (Prep.splitPath p, String.intercalate "=" rest)
    | [] => ([], ""))

def strs (s : String) : List String := (unescList s).map String.ofList

def suitePrepare (f : List String) : String :=
  match f with
  | [src, ign, ub, cu, r41, ow, full, fl, ed, sd] =>
    let i : Prep.Input := ⟨decListing src, strs ign, decListing ub, cu == "1", strs r41, strs ow, decListing full, strs fl, strs ed, decListing sd⟩
    let out := (Prep.spec i).toArray.qsort (fun a b => a.1 < b.1) |>.toList
    "ok\t" ++ escList (out.map (fun p => (String.intercalate "/" p.1 ++ "=" ++ p.2).toList)) ++ "\t" ++ b2s (Prep.uniqueBase i.src)
  | _ => "err\tbad-op"

/-- dbusspec <action> <bus> <name> <path|-> <interface|-> <interface+|-> <label> -> the documented rules -/
def suiteDbusSpec (f : List String) : String :=
  match f with
  | [action, bus, name, path, iface, ifp, label] =>
    let o (x : String) : Option (List Char) := if x == "-" then none else some (unesc x)
    let a : Directive.DbusArgs := ⟨unesc bus, unesc name, o path, o iface, o ifp, unesc label⟩
    let rs := if action == "own" then Directive.own a else if action == "talk" then Directive.talk a else Directive.common a
    "ok\t" ++ Aa.encodeRules (rs.map some)
  | _ => "err\tbad-op"

/-- stackclean <x> <line;line;...> -/
def suiteStackClean (f : List String) : String :=
  match f with
  | [x, body] => "ok\t" ++ escList (Directive.stackClean (x == "1") (unescList body))
  | [_] => "ok\t"
  | _ => "err\tbad-op"

/-- closed <defs;...> <refs;...> -> ok <missing;...> -/
def suiteClosed (f : List String) : String :=
  match f with
  | [d, r] => "ok\t" ++ escList ((C08.missing (strs d) (strs r)).map String.toList)
  | [_] => "ok\t"
  | _ => "err\tbad-op"

def decLog (s : String) : Aa.Log :=
  (unescList s).map (fun kv =>
    let k := kv.takeWhile (· != '=')
    (k, kv.drop (k.length + 1)))

def suiteFromLog (f : List String) : String :=
  let l := match f with | [x] => decLog x | _ => []
  let flags : List String :=
    (if l.get "error" == "-2".toList then ["mediate_deleted"] else []) ++
    (if l.get "error" == "-13".toList && !(Aa.isInfixC "namespace creation restricted".toList (l.get "info")) &&
        Aa.isInfixC "disconnected path".toList (l.get "info") then ["attach_disconnected"] else [])
  match Aa.addRule T Generated.maskToAccess l with
  | some rs => "ok\t" ++ esc (String.intercalate "," flags).toList ++ "\t" ++ Aa.encodeRules (rs.map some)
  | none => "panic"

/-- (<rule> <paddings>)* -/
def decPadded : List String → List (Option Aa.Rule × List (List Char))
  | r :: p :: rest => if r == "" then decPadded rest else (Aa.decodeRule r, unescList p) :: decPadded rest
  | [r] => if r == "" then [] else [(Aa.decodeRule r, [])]
  | [] => []

def suiteRender1 (f : List String) : String :=
  match decPadded f with
  | [(some r, p)] => "ok\t" ++ esc (Aa.renderRule r (Aa.padOf p))
  | _ => "err\tbad-op"

def suiteRender (f : List String) : String := "ok\t" ++ esc (Aa.renderRules (decPadded f))

def resTo {α : Type} (x : Aa.Parse.Res α) (g : α → String) : String :=
  match x with
  | .ok a => g a
  | .err => "err"
  | .panic => "panic"

def suiteTokenize (f : List String) : String :=
  match f with
  | [h, t] => resTo (Aa.Parse.tokenize (h == "1") (unesc t)) (fun l => "ok\t" ++ escList l)
  | [h] => resTo (Aa.Parse.tokenize (h == "1") []) (fun l => "ok\t" ++ escList l)
  | _ => "err\tbad-op"

partial def encTree (t : List Aa.Parse.KV) : String :=
  String.join (t.map fun kv =>
    "<" ++ esc kv.key ++ "^" ++ esc kv.comment ++ (match kv.vals with | some v => "=" ++ encTree v | none => "") ++ ">")

def suiteParseRule (f : List String) : String :=
  match f with
  | [h, t] => resTo (Aa.Parse.parseRule (h == "1") (unesc t)) (fun l => "ok\t" ++ encTree l)
  | [h] => resTo (Aa.Parse.parseRule (h == "1") []) (fun l => "ok\t" ++ encTree l)
  | _ => "err\tbad-op"

def suiteCommaRules (f : List String) : String :=
  let t := match f with | [t] => unesc t | _ => []
  resTo (Aa.Parse.parseCommaRules false t) (fun l => String.intercalate "\t" ("ok" :: l.map encTree))

def suiteParseRules (f : List String) : String :=
  let t := match f with | [t] => unesc t | _ => []
  resTo (Aa.Parse.parseRules T t) (fun paras =>
    String.intercalate "\t" ("ok" :: (List.intercalate ["--"] (paras.map (fun p => p.map (fun r => Aa.encodeRule (some r)))))))

def suiteToAccess (f : List String) : String :=
  match f with
  | [k, t] => resTo (Aa.Parse.toAccess T k (unesc t)) (fun l => "ok\t" ++ escList l)
  | [k] => resTo (Aa.Parse.toAccess T k []) (fun l => "ok\t" ++ escList l)
  | _ => "err\tbad-op"

/-- refread <text> -> some <rule> | none : the reference-syntax reader -/
def suiteRefRead (f : List String) : String :=
  let t := match f with | [t] => unesc t | _ => []
  match Ref.read T t with
  | some r => "some\t" ++ Aa.encodeRule (some r)
  | none => "none"

def main (args : List String) : IO Unit := do
  match args with
  | ["builder"] => serve suiteBuilder
  | ["setflags"] => serve suiteSetflags
  | ["filter"] => serve suiteFilter
  | ["layout"] => serve suiteLayout
  | ["fromlog"] => serve suiteFromLog
  | ["closed"] => serve suiteClosed
  | ["dbusspec"] => serve suiteDbusSpec
  | ["stackclean"] => serve suiteStackClean
  | ["prepare"] => serve suitePrepare
  | ["resolve"] => serve suiteResolve
  | ["uniq"] => serve suiteUniq
  | ["getlogs"] => serve suiteGetLogs
  | ["lognew"] => serve suiteLogNew
  | ["rx"] => serve suiteRx
  | ["compare"] => serve suiteCompare
  | ["merge"] => serve suiteMerge
  | ["sort"] => serve suiteSort
  | ["mergevalues"] => serve suiteMergeValues
  | ["dom10"] => serve suiteDom10
  | ["doms"] => serve suiteDomS
  | ["cmpstr"] => serve suiteCmpStr
  | ["filterspec"] => serve suiteFilterSpec
  | ["refread"] => serve suiteRefRead
  | ["render1"] => serve suiteRender1
  | ["render"] => serve suiteRender
  | ["tokenize"] => serve suiteTokenize
  | ["parserule"] => serve suiteParseRule
  | ["commarules"] => serve suiteCommaRules
  | ["parserules"] => serve suiteParseRules
  | ["toaccess"] => serve suiteToAccess
  | _ => IO.eprintln "usage: driver <suite>"
