import AaVerif.Proto
import AaVerif.Generated.Chains
import AaVerif.Flags
import AaVerif.Filter
import AaVerif.Generated.Dists
import AaVerif.Generated.AaTables
import AaVerif.Aa.Wire
open Proto

/-- model of a builder by name, when it is one of the literal replace lists -/
def builderModel (name : String) : Option (List Char → List Char) :=
  match name with
  | "hotfix" => some (Str.runSteps Generated.hotfix)
  | "fsp" => some (Str.runSteps Generated.fsp)
  | "abi3" => some (Str.runSteps Generated.abi3)
  | "complain" => some Flags.complain
  | "enforce" => some Flags.enforce
  | _ => none

def suiteBuilder (f : List String) : String :=
  match f with
  | [names, _file, text] =>
    let rec go (ns : List (List Char)) (t : List Char) : Option (List Char) :=
      match ns with
      | [] => some t
      | n :: ns => match builderModel (String.ofList n) with
        | some b => go ns (b t)
        | none => none
    match go (unescList names) (unesc text) with
    | some t => "ok\t" ++ esc t
    | none => "err\tunknown-builder"
  | _ => "err\tbad-op"

/-- `Flagger.Read` on one manifest line + `SetFlags.Apply` on the text of profile `p` -/
def suiteSetflags (f : List String) : String :=
  match f with
  | [line, text] =>
    let line := unesc line
    let t := unesc text
    -- util.Filter drops comments and blank lines; the generator never sends those
    let parts := splitOnChar ' ' line
    let name := parts.headD []
    if name != ['p'] then "ok\t" ++ esc t ++ "\t1" else
    let flags := match parts.drop 1 with
      | [] => []
      | x :: _ => Flags.splitComma x
    if flags.isEmpty then "ok\t" ++ esc t ++ "\t0"
    else "ok\t" ++ esc (Flags.setFlags flags t) ++ "\t0"
  | _ => "err\tbad-op"

def mkTarget (dist abi ver : String) : Filter.Target :=
  let fam := match Generated.families.find? (fun f => f.2.contains dist) with
    | some f => f.1
    | none => ""
  { dist := dist.toList, family := fam.toList, abi := ("abi" ++ abi).toList,
    version := ("apparmor" ++ ver).toList }

def suiteFilter (f : List String) : String :=
  match f with
  | [dist, abi, ver, text] =>
    match Filter.model (mkTarget (String.ofList (unesc dist)) abi ver) (unesc text) with
    | some t => "ok\t" ++ esc t
    | none => "unmodelled"
  | _ => "err\tbad-op"

/-- the specification and the well-formedness predicate on the same op -/
def suiteFilterSpec (f : List String) : String :=
  match f with
  | [dist, abi, ver, text] =>
    let t := unesc text
    b2s (Filter.wf t) ++ "\t" ++ esc (Filter.specText (mkTarget (String.ofList (unesc dist)) abi ver) t)
  | _ => "err\tbad-op"

def T := Generated.aaTables

def suiteCompare (f : List String) : String :=
  match f with
  | [a, b] => match Aa.decodeRule a, Aa.decodeRule b with
    | some x, some y => "ok\t" ++ toString (Aa.compareRule T x y)
    | _, _ => "err"
  | _ => "err\tbad-op"

def suiteMerge (f : List String) : String :=
  "ok\t" ++ Aa.encodeRules (Aa.mergeRules T ((f.filter (· != "")).map Aa.decodeRule))

/-- reply: the reference sort, then whether the sort comparator has a tie between two different rules -/
def suiteSort (f : List String) : String :=
  let rs := (f.filter (· != "")).filterMap Aa.decodeRule
  "ok\t" ++ Aa.encodeRules ((Aa.sortRules T rs).map some)

def suiteMergeValues (f : List String) : String :=
  match f with
  | [kind, key, a, b] => "ok\t" ++ escList (Aa.mergeValues T kind key (unescList a) (unescList b))
  | [kind, key, a] => "ok\t" ++ escList (Aa.mergeValues T kind key (unescList a) [])
  | [kind, key] => "ok\t" ++ escList (Aa.mergeValues T kind key [] [])
  | _ => "err\tbad-op"

def suiteCmpStr (f : List String) : String :=
  match f with
  | [a, b] => "ok\t" ++ toString (Aa.cmpStr T.stringAlphabet (unesc a) (unesc b))
  | [a] => "ok\t" ++ toString (Aa.cmpStr T.stringAlphabet (unesc a) [])
  | [] => "ok\t0"
  | _ => "err\tbad-op"

def main (args : List String) : IO Unit := do
  match args with
  | ["builder"] => serve suiteBuilder
  | ["setflags"] => serve suiteSetflags
  | ["filter"] => serve suiteFilter
  | ["compare"] => serve suiteCompare
  | ["merge"] => serve suiteMerge
  | ["sort"] => serve suiteSort
  | ["mergevalues"] => serve suiteMergeValues
  | ["cmpstr"] => serve suiteCmpStr
  | ["filterspec"] => serve suiteFilterSpec
  | _ => IO.eprintln "usage: driver <suite>"
