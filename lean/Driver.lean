import AaVerif.Proto
import AaVerif.Generated.Chains
open Proto

/-- model of a builder by name, when it is one of the literal replace lists -/
def builderModel (name : String) : Option (List Char → List Char) :=
  match name with
  | "hotfix" => some (Str.runSteps Generated.hotfix)
  | "fsp" => some (Str.runSteps Generated.fsp)
  | "abi3" => some (Str.runSteps Generated.abi3)
  | _ => none

def suiteBuilder (f : List String) : String :=
  match f with
  | [names, _file, text] =>
    let rec go (ns : List (List Char)) (t : List Char) : Option (List Char) :=
      match ns with
      | [] => some t
      | n :: ns => match builderModel (String.ofList n) with
        | some b => go ns (b t)
        | none => none
    match go (unescList names) (unesc text) with
    | some t => "ok\t" ++ esc t
    | none => "err\tunknown-builder"
  | _ => "err\tbad-op"

def main (args : List String) : IO Unit := do
  match args with
  | ["builder"] => serve suiteBuilder
  | _ => IO.eprintln "usage: driver <suite>"
