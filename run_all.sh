#!/bin/sh
# Runs every claimed check (quick tier by default) on /repo as it is, validates the evidence files.
cd "$(dirname "$0")"
tier=${1:-quick}
fail=0
for id in $(python3 -c "import json;print(' '.join(c['property_id'] for c in json.load(open('MANIFEST.json'))['checks']))"); do
  ./check $id --tier $tier > /tmp/run_all_$id.log 2>&1; rc=$?
  tail -1 /tmp/run_all_$id.log
  if [ $rc -ne 0 ]; then echo "  !! $id exit $rc"; grep VIOLATION /tmp/run_all_$id.log | head -3; fail=1; fi
done
python3-vt - <<'PY'
import json, jsonschema, glob
s = json.load(open('/root/.vp/EVIDENCE.schema.json'))
for f in sorted(glob.glob('/verif/evidence/*.json')):
    try:
        jsonschema.validate(json.load(open(f)), s)
    except Exception as e:
        print('INVALID', f, str(e)[:200])
jsonschema.validate(json.load(open('/verif/MANIFEST.json')), json.load(open('/root/.vp/MANIFEST.schema.json')))
print('schemas ok')
PY
exit $fail
