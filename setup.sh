#!/bin/sh
# Build the framework from files on disk only (offline): the Lean development (all models,
# theorems and the driver executable) and a first build of the Go harness against /repo.
set -e
cd "$(dirname "$0")"
export GOFLAGS=-mod=mod GOPROXY=off GOSUMDB=off GOTOOLCHAIN=local CGO_ENABLED=0
( cd harness && go build -tags verif -o /dev/null ./cmd/vharness )
props=$(cd lean/AaVerif/Props && ls C*.lean | sed 's/\.lean$//; s/^/AaVerif.Props./' | tr '\n' ' ')
( cd lean && lake build AaVerif driver $props )
echo setup-ok
